"""Shared by C05 C06 C07: generated component trees with scripted prepare()/start() methods run with
the real start_component under the lock-step director (harness/impl/impl_start.py), printed as Gallina
terms for Corr/Check_start.v, and the independent Python oracles restating each property on the
implementation's observation log."""
from __future__ import annotations

import json

from harness.core import COMMON_TRUST, Check, cbool, clist, cnat

HEADER = "From Asphalt Require Import Corr.Check_start.\n"
TRUST = COMMON_TRUST + [
    "modelled, not verified: anyio task groups (a failing child cancels its siblings; exception groups), cancel "
    "scopes, the event stream used by waiting components, virtual time (trio MockClock / an asyncio loop whose "
    "clock the director moves); component methods are scripts of segments, each behind a director gate",
    "quiescence = trio.testing.wait_all_tasks_blocked / asyncio ready queue observed empty twice; within one "
    "quiescent step observations are compared as multisets",
]
NT, NN = 4, 4


# ------------------------------------------------------------------ generation
def gen_tree(r, n):
    prog = []
    for i in range(n):
        parent = None if i == 0 else r.randrange(max(0, i - 3), i)
        # pre-order: the parent of i must be on the right spine of the tree built so far
        prog.append({"parent": parent})
    # re-parent to obtain a valid pre-order numbering: parent(i) must be an ancestor-or-self of i-1
    for i in range(1, n):
        chain = []
        p = i - 1
        while p is not None:
            chain.append(p)
            p = prog[p]["parent"]
        prog[i]["parent"] = r.choice(chain[:3]) if r.random() < 0.8 else r.choice(chain)
    return prog


def gen_prog(r, mode):
    n = r.choice([1, 2, 3, 3, 4, 4, 5, 6, 7, 8, 9])
    prog = gen_tree(r, n)
    if r.random() < 0.06:
        # a wide tree: all children of one parent start at once, however many there are
        n = r.choice([10, 11, 12])
        prog = [{"parent": None}] + [{"parent": 0} for _ in range(n - 1)]
    keys = []          # keys somebody publishes
    for i, c in enumerate(prog):
        c["has_prepare"] = r.random() < 0.7
        c["has_start"] = r.random() < 0.75
        c["dname"] = r.choice([0, 0, 0, 1, 2, 3]) if i else 0     # the root component has no alias
        c["prep"], c["start"] = [], []
    used = set()
    cb = [0]

    def fresh_key(cc, in_start):
        for _ in range(20):
            types = r.sample(range(NT), r.choice([1, 1, 1, 2]))
            name = r.choice([0, 0, 1, 2, 3])
            eff = cc["dname"] if (in_start and name == 0) else name
            if all((t, eff) not in used for t in types):
                for t in types:
                    used.add((t, eff))
                return types, name, eff
        return None

    # publications first (so that waits can refer to them), then scripts
    pubs = []   # (comp, in_start, seg_index, action, effective keys)
    for i, c in enumerate(prog):
        for in_start in (False, True):
            if not (c["has_start"] if in_start else c["has_prepare"]):
                continue
            nseg = r.choice([0, 1, 1, 2, 3])
            script = [[] for _ in range(nseg)]
            for si in range(nseg):
                for _ in range(r.choice([0, 1, 1, 2])):
                    k = r.random()
                    if k < 0.5:
                        fk = fresh_key(c, in_start)
                        if fk:
                            types, name, eff = fk
                            a = ["Publish", types, name, r.random() < 0.3]
                            script[si].append(a)
                            pubs.append((i, in_start, [(t, eff) for t in types]))
                    elif k < 0.65:
                        script[si].append(["AddTd", cb[0]])
                        cb[0] += 1
                    elif k < 0.8:
                        script[si].append(["GetOpt", r.randrange(NT), r.randrange(NN)])
                    else:
                        script[si].append(["Noop"])
            c["start" if in_start else "prep"] = script
    # waits: acyclic by construction -- a component may wait (a) in start() for anything published by
    # components with a smaller index in prepare() or by its own descendants, (b) siblings waiting on
    # siblings published in an EARLIER phase position: we rank publications by (comp index) and only wait
    # for keys of strictly smaller rank published in prepare(), or keys of descendants from start()
    def descendants(i):
        out = []
        for j in range(i + 1, len(prog)):
            p = prog[j]["parent"]
            while p is not None and p != i:
                p = prog[p]["parent"]
            if p == i:
                out.append(j)
        return out

    def ancestors(i):
        out, p = [], prog[i]["parent"]
        while p is not None:
            out.append(p)
            p = prog[p]["parent"]
        return out

    all_pubkeys = [(i, st_, k) for i, st_, ks in pubs for k in ks]
    for i, c in enumerate(prog):
        for in_start in (False, True):
            script = c["start" if in_start else "prep"]
            for si, sg in enumerate(script):
                if r.random() < (0.45 if mode != "nowait" else 0.0):
                    cands = []
                    for (j, jst, k) in all_pubkeys:
                        if j == i:
                            continue
                        if in_start and j in descendants(i):
                            cands.append(k)                       # children have started before my start()
                        elif j in ancestors(i) and not jst:
                            cands.append(k)                       # an ancestor's prepare() precedes me
                        elif prog[j]["parent"] == prog[i]["parent"] and j < i and not (jst and not in_start):
                            cands.append(k)                       # an elder sibling (same or earlier phase)
                    if mode == "cyclic" and r.random() < 0.5:
                        cands = [k for (j, jst, k) in all_pubkeys if j != i] or cands
                    if mode == "missing" and r.random() < 0.3:
                        cands = [(r.randrange(NT), 3)]
                    if cands:
                        k = r.choice(cands)
                        sg.append(["Wait", k[0], k[1]])
    if mode == "fail" or (mode == "mixed" and r.random() < 0.35):
        cands = [(i, st_) for i, c in enumerate(prog) for st_ in (False, True)
                 if c["start" if st_ else "prep"]]
        if cands:
            i, st_ = r.choice(cands)
            script = prog[i]["start" if st_ else "prep"]
            sg = r.choice(script)
            # the failure strikes at the start of an atomic step (possibly after actions that wake nobody): a
            # component woken in the very step in which another one fails runs on to its next checkpoint before
            # it is cancelled, which the model does not represent
            pos = 0
            while pos < len(sg) and sg[pos][0] in ("Noop", "AddTd", "GetOpt") and r.random() < 0.5:
                pos += 1
            sg.insert(pos, ["Fail", r.choice([7, 7, 8, 9])])
    if mode == "burst":
        # many non-matching publications without a checkpoint while somebody waits (F7)
        c = prog[0]
        c["has_prepare"] = True
        burst = [["Publish", [t], 3, False] for t in range(NT) if (t, 3) not in used]
        c["prep"] = [[["Noop"]]] + c["prep"]
    return prog


def gen_choices(r, n=60):
    """choice 7 fires the timeout (when armed); anything else picks among the components at a gate"""
    return [7 if r.random() < 0.03 else r.randrange(7) for _ in range(n)]


# ------------------------------------------------------------------ printing
def act_term(a):
    k = a[0]
    if k == "Publish":
        return f"(Publish {clist(map(cnat, a[1]))} {a[2]} {cbool(a[3])})"
    if k in ("Wait", "GetOpt"):
        return f"({k} {a[1]} {a[2]})"
    if k == "Fail":
        return f"(Fail {a[1]})"
    if k == "AddTd":
        return f"(AddTd {a[1]})"
    return "Noop"


def script_term(sc):
    return clist(clist(act_term(a) for a in sg) for sg in sc)


def prog_term(prog):
    return clist(f"(Comp {'None' if c['parent'] is None else '(Some %d)' % c['parent']} {cbool(c['has_prepare'])} "
                 f"{cbool(c['has_start'])} {script_term(c['prep'])} {script_term(c['start'])} {c['dname']})"
                 for c in prog)


def val_term(v):
    if v is None:
        return "None"
    if len(v) != 3:
        return "(Some (Val 999 999 false))"
    return f"(Some (Val {v[0]} {v[1]} {cbool(v[2])}))"


def obs_term(o):
    k = o[0]
    if k in ("PB", "PE", "SB", "SE", "Failed", "Cancelled"):
        return f"({k} {o[1]})"
    if k == "Got":
        return f"(Got {o[1]} ({o[2]}, {o[3]}) {val_term(o[4])})"
    if k in ("Returned", "Raised"):
        return k
    return None


def obs_list(batch):
    return clist(t for t in (obs_term(o) for o in batch) if t is not None)


def gate_term(g):
    return "GTimeout" if g == "T" else f"(GComp {g})"


def final_term(r):
    o = r["outcome"]
    if not r["finished"] or o is None:
        return "FUnfinished"
    if o["k"] == "returned":
        return "FReturned" if o["root_ok"] else "(FError 999 false CConflict)"
    if o["k"] == "timeout":
        return "FTimeout"
    if o["k"] == "error" and o["class_ok"] and o["cause"][0] in ("exc", "conflict"):
        cause = f"(CExc {o['cause'][1]})" if o["cause"][0] == "exc" else "CConflict"
        ph = {"preparing": "false", "starting": "true"}.get(o["phase"])
        if ph is not None and o["comp"] >= 0:
            return f"(FError {o['comp']} {ph} {cause})"
    return "(FError 999 false CConflict)"


def case_term(r):
    steps = clist(f"({gate_term(s['fired'])}, ({clist(gate_term(g) for g in s['enabled'])}, {obs_list(s['obs'])}))"
                  for s in r["steps"][1:])
    table = clist(f"(({t}, {n}), (Val {v[0]} {v[1]} {cbool(v[2])}))" for t, n, v in r["table"] if len(v) == 3)
    return (f"(SC {prog_term(r['prog'])} {cbool(r['timeout'])} {obs_list(r['steps'][0]['obs'])} {steps} "
            f"{final_term(r)} {table} {clist(map(cnat, r['teardown']))})")


# ------------------------------------------------------------------ running
def collect(ck: Check, n_cases: int, modes, fixed=()):
    cases = []
    for f in fixed:
        for be in ("asyncio", "trio"):
            cases.append(dict(f, backend=be))
    for i in range(n_cases):
        r = ck.rng("start", i)
        mode = modes[i % len(modes)]
        prog = gen_prog(r, mode)
        timeout = r.random() < 0.7
        for s in range(2):     # two schedules per program
            ch = gen_choices(ck.rng("sched", i, s))
            if timeout and mode in ("cyclic", "missing") and s == 1:
                ch = ch[:10] + [7] * 50       # eventually pick the last gate (the timeout)
            cases.append({"prog": prog, "timeout": timeout, "choices": ch, "mode": mode,
                          "backend": "asyncio" if (i + s) % 2 == 0 else "trio"})
    chunk = max(1, (len(cases) + 15) // 16)
    chunks = [cases[i:i + chunk] for i in range(0, len(cases), chunk)]
    res = ck.run_impl("impl_start.py", [{"cases": c} for c in chunks], timeout=900)
    out = []
    for c, rr in zip(chunks, res):
        if "error" in rr:
            ck.broke("impl-runner", rr)
            continue
        out += rr["results"]
    crashed = [r for r in out if "crash" in r]
    if crashed:
        ck.runner_crash({"backend": crashed[0].get("backend"), "prog": crashed[0]["prog"]}, crashed[0]["crash"])
    hung = [r for r in out if r.get("hang")]
    if hung:
        small = min(hung, key=lambda r: len(json.dumps(r["prog"])))
        ck.fail_input(f"{ck.pid}:hang", "the startup could not be brought to an end: start_component neither returned nor "
                      "raised and its components could not be cancelled (real-time watchdog of the harness, "
                      f"{len(hung)} program(s))",
                      {"backend": small["backend"], "prog": small["prog"], "choices": small["choices"],
                       "timeout": small["timeout"], "hang": True})
    return [r for r in out if "crash" not in r and not r.get("hang") and not r.get("skipped")]


# ------------------------------------------------------------------ oracles
def flat_obs(r):
    """the whole observation log in order, with the step index of each observation"""
    out = []
    for si, s in enumerate(r["steps"]):
        for o in s["obs"]:
            out.append((si, o))
    return out


def ancestors(prog, i):
    out, p = [], prog[i]["parent"]
    while p is not None:
        out.append(p)
        p = prog[p]["parent"]
    return out


def oracle_C05(r):
    bad = []
    prog = r["prog"]
    rt = r.get("res_td")
    if rt and sorted(rt["expected"]) != sorted(rt["ran"]):
        bad.append(("C05:resource-teardown", f"resources {sorted(rt['expected'])} were registered by components with a "
                    f"teardown callback; when the surrounding context was left the callbacks of {sorted(rt['ran'])} ran"))
    log = [o for _, o in flat_obs(r)]
    pos = {}
    for idx, o in enumerate(log):
        if o[0] in ("Create", "PB", "PE", "SB", "SE"):
            pos.setdefault((o[0], o[1]), []).append(idx)
    for (k, c), ps in pos.items():
        if len(ps) > 1:
            bad.append(("C05:twice", f"{k} of component {c} happened {len(ps)} times"))
    creates = [o[1] for o in log if o[0] == "Create"]
    if creates != list(range(len(prog))):
        bad.append(("C05:construction", f"components constructed {creates}, the tree has {len(prog)} in pre-order"))
    first_run = min([ps[0] for (k, c), ps in pos.items() if k != "Create"] or [len(log)])
    if any(ps[0] > first_run for (k, c), ps in pos.items() if k == "Create"):
        bad.append(("C05:construct-first", "a component was constructed after some prepare()/start() had begun"))

    def at(k, c):
        return pos.get((k, c), [None])[0]
    for d, c in enumerate(prog):
        p = c["parent"]
        if p is not None:
            for k in ("PB", "SB"):
                if at(k, d) is not None and prog[p]["has_prepare"] and (at("PE", p) is None or at("PE", p) > at(k, d)):
                    bad.append(("C05:prepare-before-children", f"{k} of {d} before prepare() of its parent {p} completed"))
            if at("PB", d) is not None and at("PB", p) is not None and not prog[p]["has_prepare"]:
                pass
        for a in ancestors(prog, d):
            if at("SB", a) is not None:
                end = at("SE", d) if c["has_start"] else (at("PE", d) if c["has_prepare"] else None)
                if (c["has_start"] or c["has_prepare"]) and (end is None or end > at("SB", a)):
                    bad.append(("C05:start-after-descendants", f"start() of {a} began before descendant {d} had finished"))
    o = r["outcome"]
    if o and o["k"] == "returned":
        if not o["root_ok"]:
            bad.append(("C05:return-value", "start_component did not return the root instance"))
        for i, c in enumerate(prog):
            for k, need in (("PB", c["has_prepare"]), ("PE", c["has_prepare"]), ("SB", c["has_start"]), ("SE", c["has_start"])):
                if need and at(k, i) is None:
                    bad.append(("C05:skipped", f"{k} of component {i} never happened although startup completed"))
        ret = next((i for i, x in enumerate(log) if x[0] == "Returned"), None)
        if prog[0]["has_start"] and (at("SE", 0) is None or ret is None or at("SE", 0) > ret):
            bad.append(("C05:returned-early", "start_component returned before the root's start() had returned"))
    # concurrency of siblings: when a component's children begin, all of them are at their first gate together
    for si, s in enumerate(r["steps"]):
        begun = [o[1] for o in s["obs"] if o[0] == "PB"]
        for d in begun:
            sibs = [j for j, c in enumerate(prog) if c["parent"] == prog[d]["parent"] and j != d and prog[d]["parent"] is not None]
            for j in sibs:
                cj = prog[j]
                if cj["has_prepare"] and ("PB", j) in pos and not any(o == ["PB", j] for o in s["obs"]):
                    bad.append(("C05:siblings-not-concurrent", f"step {si}: sibling {j} of {d} did not begin in the same "
                                f"quiescent step as {d}"))
    # ownership: what was published is visible in the surrounding context
    if o and o["k"] == "returned":
        pubs = 0
        for i, c in enumerate(prog):
            for st_ in (False, True):
                for sg in c["start" if st_ else "prep"]:
                    for a in sg:
                        if a[0] == "Publish" and not a[3]:
                            pubs += len(a[1])
        if len(r["table"]) < pubs:
            bad.append(("C05:ownership", f"{pubs} resources were published, the surrounding context shows {len(r['table'])}"))
        tds = [a[1] for c in prog for st_ in ("prep", "start") for sg in c[st_] for a in sg if a[0] == "AddTd"]
        if sorted(r["teardown"]) != sorted(tds):
            bad.append(("C05:ownership", f"teardown callbacks registered {sorted(tds)}, run when the surrounding context "
                        f"was left: {sorted(r['teardown'])}"))
    early = [o for s_ in r["steps"] for o in s_["obs"] if o[0] == "Td"] + [o for o in r.get("late") or [] if o[0] == "Td"]
    if early:
        bad.append(("C05:torn-down-early", f"teardown callbacks {sorted(o[1] for o in early)} registered by components ran "
                    f"before the surrounding context was left"))
    bad += [("C05:acyclic-pattern-stuck", w) for sig, w in stuck_check(r) if sig == "C06:stuck"]
    o = r["outcome"]
    has_fail = any(a[0] == "Fail" for c in r["prog"] for st_ in ("prep", "start") for sg in c[st_] for a in sg)
    if o and o["k"] == "error" and not has_fail and o["cause"][0] != "conflict":
        bad.append(("C05:acyclic-pattern-failed", f"no component raises, yet startup failed instead of completing: {o}"))
    return bad


def oracle_C06(r):
    """no lost and no false wake-ups: at every quiescent point a component whose last action is an
    unanswered Wait is blocked iff its key has not been published; what it gets is the published object"""
    bad = []
    prog = r["prog"]
    published = {}        # key -> val (as logged by Got of anyone / table at the end)
    final_table = {(t, n): v for t, n, v in r["table"]}
    # reconstruct publication times from the scripts: a Publish action executes in the step its segment's gate fired
    # (or in a later step when it follows a blocking Wait).  We use the Got observations as ground truth instead:
    for si, s in enumerate(r["steps"]):
        for o in s["obs"]:
            if o[0] == "Got" and o[4] is not None:
                k = (o[2], o[3])
                if k in final_table and final_table[k] != o[4] and r["outcome"] and r["outcome"]["k"] == "returned":
                    bad.append(("C06:wrong-object", f"step {si}: component {o[1]} got {o[4]} for {k}, published: {final_table[k]}"))
                if len(o[4]) != 3:
                    bad.append(("C06:wrong-object", f"step {si}: component {o[1]} got a foreign object for {k}"))
                published.setdefault(k, si)
    return bad


def blocked_analysis(r):
    """independent replay of WHO should be blocked: walks the scripts along the fired gates.  Returns
    list of (signature, text)."""
    bad = []
    prog = r["prog"]
    n = len(prog)
    table = {}            # key -> step index of publication
    pos = {i: {"phase": None, "seg": 0, "act": 0, "blocked": None} for i in range(n)}
    got = {}
    # publication times by replaying scripts is the model's job; here we check the implementation log only:
    # (1) every Got(key) for a non-optional wait happens at or after a step where the key is in the final table
    # (2) when startup completed, every Wait in every script produced exactly one Got
    if r["outcome"] and r["outcome"]["k"] == "returned":
        for i, c in enumerate(prog):
            for st_ in ("prep", "start"):
                for sg in c[st_]:
                    for a in sg:
                        if a[0] == "Wait":
                            k = (i, a[1], a[2])
                            got.setdefault(k, 0)
        cnt = {}
        for _, o in flat_obs(r):
            if o[0] == "Got":
                cnt[(o[1], o[2], o[3])] = cnt.get((o[1], o[2], o[3]), 0) + 1
        for k in got:
            if cnt.get(k, 0) < 1:
                bad.append(("C06:lost", f"component {k[0]} waited for {k[1:]} and never got it although startup completed"))
    return bad


def stuck_check(r):
    """a startup whose wait pattern is acyclic by construction must never be stuck: if at some quiescent point
    no component can move (only the timeout is left) although nothing failed, a wake-up was lost (or the
    siblings were not started concurrently); and a component that only waits must not fail"""
    bad = []
    acyclic = r.get("mode") in ("nowait", "mixed", "fail", "fixed")
    has_fail = any(a[0] == "Fail" for c in r["prog"] for st_ in ("prep", "start") for sg in c[st_] for a in sg)
    failed = any(o[0] == "Failed" for _, o in flat_obs(r))
    if acyclic and not failed:
        for si, s in enumerate(r["steps"][1:], 1):
            if s["enabled"] == ["T"]:
                bad.append(("C06:stuck", f"step {si}: no component can make progress although every wait is for "
                            f"something that is (or will be) published: a lost wake-up"))
                break
        if not r["finished"] and not r["timeout"] and r["steps"] and not r["still_waiting"] and r["steps"][-1].get("enabled") == []:
            bad.append(("C06:stuck", "startup neither finished nor has any component left to run"))
    o = r["outcome"]
    if o and o["k"] == "error" and not has_fail and o["cause"][0] != "conflict":
        bad.append(("C06:wait-failed", f"no component raises, yet startup failed: {o}"))
    if o and o["k"] == "other" and r["finished"]:
        bad.append(("C06:wait-failed", f"startup ended with {o}"))
    return bad


def oracle_C06_full(r):
    return oracle_C06(r) + blocked_analysis(r) + deadlock_check(r) + stuck_check(r)


def deadlock_check(r):
    """a run that ends with nothing enabled while components are still blocked although their keys ARE in the
    surrounding context is a lost wake-up"""
    bad = []
    if r["finished"] or not r["steps"]:
        return bad
    final_table = {(t, n) for t, n, v in r["table"]}
    # find components whose last relevant event is a Wait with no Got: approximate from scripts + log
    prog = r["prog"]
    gots = {}
    for _, o in flat_obs(r):
        if o[0] == "Got":
            gots[(o[1], o[2], o[3])] = gots.get((o[1], o[2], o[3]), 0) + 1
    began = {(o[0], o[1]) for _, o in flat_obs(r) if o[0] in ("PB", "SB", "PE", "SE")}
    fired = {}
    for s in r["steps"][1:]:
        if s["fired"] != "T":
            fired[s["fired"]] = fired.get(s["fired"], 0) + 1
    for i, c in enumerate(prog):
        for st_, b, e in (("prep", "PB", "PE"), ("start", "SB", "SE")):
            if (b, i) in began and (e, i) not in began:
                # segments fired so far in this method
                nf = fired.get(i, 0) - (len(c["prep"]) if st_ == "start" and c["has_prepare"] else 0)
                for sg in c[st_][:max(nf, 0)]:
                    for a in sg:
                        if a[0] == "Wait" and gots.get((i, a[1], a[2]), 0) == 0 and (a[1], a[2]) in final_table \
                                and i not in r["still_waiting"]:
                            bad.append(("C06:lost-wakeup", f"component {i} is still blocked waiting for {(a[1], a[2])} "
                                        f"although it is published in the surrounding context"))
    return bad


def oracle_C07(r):
    bad = []
    early = [o for s_ in r["steps"] for o in s_["obs"] if o[0] == "Td"] + [o for o in r.get("late") or [] if o[0] == "Td"]
    if early:
        bad.append(("C07:torn-down-early", f"teardown callbacks {sorted(o[1] for o in early)} of components that had "
                    f"started ran before the surrounding context was left"))
    if r.get("ghost_stops"):
        bad.append(("C07:never-started-service-stopped", f"the teardown action of service task(s) {r['ghost_stops']} ran "
                    f"although the start of the service was cut short before it had come up"))
    prog = r["prog"]
    o = r["outcome"]
    log = flat_obs(r)
    fails = [(si, x[1]) for si, x in log if x[0] == "Failed"]
    if fails:
        si_f, f = fails[0]
        if r["finished"]:
            if not o or o["k"] != "error":
                bad.append(("C07:error-lost", f"component {f} failed but start_component ended with {o}"))
            else:
                in_start = any(x == ["SB", f] for _, x in log)
                want = "starting" if in_start else "preparing"
                if o["comp"] != f or o["phase"] != want or not o["class_ok"]:
                    bad.append(("C07:error-fields", f"component {f} failed while {want}; the error names component "
                                f"{o['comp']} phase {o['phase']} (class ok: {o['class_ok']})"))
                if o["cause"][0] not in ("exc", "conflict"):
                    bad.append(("C07:cause", f"the original exception is not the cause: {o['cause']}"))
                # the component's own Fail code: what it raised -- also an exception group with a single member
                # (code 9), which is the original exception, not its member (99)
                codes = [a[1] for ph in ("prep", "start") for sg in prog[f][ph] for a in sg if a[0] == "Fail"]
                if o["cause"][0] == "exc" and codes and o["cause"][1] not in codes:
                    bad.append(("C07:cause", f"component {f} raised the exception with code {codes}; the cause of the "
                                f"ComponentStartError is the one with code {o['cause'][1]}"))
        for a in ancestors(prog, f):
            if any(x == ["SB", a] for _, x in log):
                bad.append(("C07:ancestor-started", f"start() of ancestor {a} of the failed component {f} was run"))
        # nothing begins after the failure; everybody who was running is cancelled
        after = [x for si, x in log if si > si_f and x[0] in ("PB", "SB", "PE", "SE", "Got")]
        if after:
            bad.append(("C07:runs-after-failure", f"observations after the failing step: {after[:4]}"))
    if o and o["k"] in ("error", "timeout"):
        if r["late"]:
            bad.append(("C07:still-running", f"after start_component raised: {r['late'][:4]}"))
        if r["still_waiting"]:
            bad.append(("C07:still-running", f"components {r['still_waiting']} are still at their gates after "
                        f"start_component raised"))
        tds = []
        for si, x in log:
            pass
    if o and o["k"] == "timeout" and not r["timeout"]:
        bad.append(("C07:timeout", "TimeoutError without a timeout"))
    if o and o["k"] == "returned" and any(s.get("fired") == "T" for s in r["steps"][1:]):
        bad.append(("C07:timeout-ignored", "the timeout fired but start_component returned normally"))
    if any(s.get("fired") == "T" for s in r["steps"][1:]) and r["finished"] and o and o["k"] != "timeout":
        # the timeout struck while startup was still running
        idx = next(i for i, s in enumerate(r["steps"]) if s.get("fired") == "T")
        if not any(x[0] in ("Returned", "Raised") for s in r["steps"][:idx] for x in s["obs"]):
            bad.append(("C07:timeout", f"the timeout fired during startup but the outcome is {o}"))
    if o and o["k"] in ("error", "timeout") and r["finished"]:
        # what was registered before the failure is torn down in reverse order
        reg = []
        # registration order = order of AddTd execution; unknown here without replaying the scripts:
        # the model comparison checks the exact order, the oracle checks set + no duplicates
        if len(set(r["teardown"])) != len(r["teardown"]):
            bad.append(("C07:cleanup", f"a teardown callback ran twice: {r['teardown']}"))
    return bad


def nontrivial(r):
    return len(r["prog"]) >= 3 and len(r["steps"]) >= 4


def distribution(results):
    d = {"components": {}, "outcomes": {}, "steps": 0, "waits": 0, "gots": 0, "cancelled": 0, "timeout_fired": 0,
         "modes": {}, "backend": {}}
    for r in results:
        d["components"][len(r["prog"])] = d["components"].get(len(r["prog"]), 0) + 1
        k = (r["outcome"] or {}).get("k", "unfinished") if r["finished"] else "unfinished"
        d["outcomes"][k] = d["outcomes"].get(k, 0) + 1
        d["steps"] += len(r["steps"])
        d["backend"][r["backend"]] = d["backend"].get(r["backend"], 0) + 1
        for _, o in flat_obs(r):
            d["gots"] += o[0] == "Got"
            d["cancelled"] += o[0] == "Cancelled"
        d["timeout_fired"] += any(s.get("fired") == "T" for s in r["steps"][1:])
        d["waits"] += sum(1 for c in r["prog"] for st_ in ("prep", "start") for sg in c[st_] for a in sg if a[0] == "Wait")
    return d


FIXED = [
    # F7: a waiter must survive > 50 non-matching publications made without a checkpoint
    {"prog": [
        {"parent": None, "has_prepare": False, "has_start": False, "prep": [], "start": [], "dname": 0},
        {"parent": 0, "has_prepare": True, "has_start": True, "dname": 0, "start": [[["GetOpt", 0, 1]]],
         "prep": [[["Wait", 0, 1]]]},
        {"parent": 0, "has_prepare": True, "has_start": False, "dname": 2, "start": [],
         "prep": [[["Publish", [t], n, False] for t in range(1, 4) for n in range(1, 20)] + [["Publish", [0], 1, False]]]},
    ], "timeout": True, "choices": [0, 0, 0, 0, 0, 0], "mode": "fixed"},
]


def run_property(ck: Check, oracle, modes, n_quick=600, n_thorough=12000):
    ck.trusted = TRUST
    ck.prove(extra_targets=["Corr/Check_start.v", "Conc/StartupExamples.v"])
    results = collect(ck, ck.n(n_quick, n_thorough), modes, FIXED)
    terms = [case_term(r) for r in results]
    bad = ck.coq_eval("start", HEADER, terms, "start_case", "check_start", shard=100)
    sigs, n_fail = {}, 0
    for r in results:
        for sig, what in oracle(r):
            n_fail += 1
            size = len(r["prog"]) * 100 + len(r["steps"])
            if sig not in sigs or size < sigs[sig][0]:
                sigs[sig] = (size, r, what)
    for sig, (_, r, what) in sigs.items():
        ck.fail_input(sig, what, {"backend": r["backend"], "prog": r["prog"], "timeout": r["timeout"],
                                  "choices": r["choices"], "steps": r["steps"], "outcome": r["outcome"]})
    for i in bad[:10]:
        if not oracle(results[i]):
            ck.broke("correspondence", {"backend": results[i]["backend"], "prog": results[i]["prog"],
                                        "timeout": results[i]["timeout"], "choices": results[i]["choices"],
                                        "steps": results[i]["steps"], "outcome": results[i]["outcome"]})
    distinct = {json.dumps([r["prog"], r["choices"]]): nontrivial(r) for r in results}
    ck.coverage.update({
        "evaluations": len(results),
        "distinct_nontrivial": sum(1 for v in distinct.values() if v),
        "rule": "seeded component trees (1-9 components in pre-order, depth up to 5, with/without prepare()/start(), "
                "aliases with and without a default resource name) whose methods are scripts of 0-3 gated segments of "
                "actions (publish resources/factories under one or two types, also through the remapped default name; "
                "wait for a resource published elsewhere; optional lookups; register teardown callbacks; fail), "
                "dependency patterns acyclic by construction plus cyclic / never-published / failing streams, two "
                "director schedules per program, startup timeout as a schedulable gate (virtual time), on asyncio "
                "and trio; enabled gates and observation batches compared with the model at EVERY step, then outcome, "
                "published resources and teardown order. distinct = by (program, schedule); non-trivial = >= 3 "
                "components and >= 4 steps",
        "samples": [{"prog": r["prog"], "steps": r["steps"][:6], "outcome": r["outcome"]} for r in results[2:3]],
        "traces_validated_against_impl": len(results) - len(bad),
        "mismatches": len(bad),
        "input_distribution": distribution(results),
        "oracle_failures": n_fail,
    })
    if ck.tier == "thorough":
        ck.coqchk()
    return results, bad


def replay_generic(ck: Check, obj, oracle) -> int:
    rp = obj.get("replay") or obj["no_longer_checks"][0]["detail"]
    r = ck.run_impl("impl_start.py", [{"cases": [{"prog": rp["prog"], "timeout": rp["timeout"],
                                                   "choices": rp["choices"], "backend": rp["backend"]}]}])[0]
    rr = r["results"][0]
    if rr.get("hang"):
        print("ORACLE: hang - the startup could not be brought to an end (real-time watchdog of the harness)")
        return 1
    if "crash" in rr:
        print(rr["crash"])
        return 1
    for s in rr.get("steps", []):
        print(s)
    print("outcome:", rr.get("outcome"), "table:", rr.get("table"), "teardown:", rr.get("teardown"))
    bad = oracle(rr)
    for b in bad:
        print("ORACLE:", b[0], "-", b[1])
    mism = ck.coq_eval("replay", HEADER, [case_term(rr)], "start_case", "check_start")
    print("model/implementation correspondence:", "DISAGREE" if mism else "agree")
    return 1 if bad or mism else 0
