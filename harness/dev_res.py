import sys, json
sys.path.insert(0, '/verif')
from harness.core import Check, make
from harness import res_common as rc
ck = Check("DEV", "quick", int(sys.argv[2]) if len(sys.argv) > 2 else 0)
print(make(["theories/Corr/Check_res.vo"])[1][-500:])
n = int(sys.argv[1]) if len(sys.argv) > 1 else 200
results = rc.collect(ck, n, 18)
print("results", len(results), "broken", ck.broken[:1])
terms = [rc.case_term(r) for r in results]
print("term bytes", sum(map(len, terms)))
bad = ck.coq_eval("res", rc.HEADER, terms, "res_case", "check_res mask_all", shard=150)
print("mismatches", len(bad), bad[:10], "broken", len(ck.broken), ck.broken[:1])
for name, orc in [("C02", rc.oracle_C02), ("C03", rc.oracle_C03), ("C04", rc.oracle_C04), ("C13", rc.oracle_C13), ("C18", rc.oracle_C18)]:
    sigs = {}
    for r in results:
        for b in orc(r):
            sigs.setdefault(b[0], []).append(b[1])
    print(name, {k: (len(v), v[0][:200]) for k, v in sigs.items()})
for i in bad[:3]:
    r = results[i]
    d = ck.coq_eval("diag", rc.HEADER, [rc.case_term(r)], "res_case", "fun c => match first_bad mask_all 0 [] [] c with Some _ => false | None => true end")
    import subprocess
    f = "/verif/build/cases/DEV/diag1.v"
    open(f, "w").write(rc.HEADER + "From Coq Require Import String List. Import ListNotations. Open Scope string_scope. Open Scope list_scope.\nDefinition c : res_case := " + rc.case_term(r) + ".\nEval vm_compute in (first_bad mask_all 0 [] [] c).\n")
    out = subprocess.run(["coqc", "-Q", "/verif/coq/theories", "Asphalt", f], capture_output=True, text=True).stdout
    print("CASE", i, r["backend"], out[-300:])
    m = __import__("re").search(r"Some \((\d+)", out)
    k = int(m.group(1)) if m else 0
    for j, s in enumerate(r["steps"][:k + 1]):
        print(j, s["op"], "->", s["out"])
    print("probe at bad step:", json.dumps(r["steps"][k]["probe"])[:1500])
