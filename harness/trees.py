"""Configuration trees: random generation, printing as Gallina terms (Config/Val.v `tree`)."""
from __future__ import annotations

import json

from harness.core import cZ, cbool, clist, cstr

KEYS = ["a", "b", "c", "a.b", "", "k_1"]


def gen_leaf(r):
    k = r.random()
    if k < 0.1:
        return r.choice([0, 1])
    if k < 0.25:
        return r.randrange(-3, 100)
    if k < 0.4:
        return r.choice(["", "x", "y.z", "txt"])
    if k < 0.55:
        return None
    if k < 0.65:
        return r.random() < 0.5
    if k < 0.85:
        return r.choice([[], [1, 2], [{"a": 1}], ["x", {"b": {"c": 2}}]])
    return {}


def gen_dict(r, depth, width=4, keys=KEYS):
    d = {}
    for _ in range(r.randrange(0, width + 1)):
        k = r.choice(keys)
        if depth > 0 and r.random() < 0.55:
            d[k] = gen_dict(r, depth - 1, width, keys)
        else:
            d[k] = gen_leaf(r)
    return d


def mutate_like(r, base, depth, keys=KEYS):
    """An override tree that collides with `base` on about half of its keys."""
    d = {}
    ks = list(base) if isinstance(base, dict) else []
    for _ in range(r.randrange(0, 5)):
        if ks and r.random() < 0.6:
            k = r.choice(ks)
            bv = base[k]
            if isinstance(bv, dict) and r.random() < 0.7 and depth > 0:
                d[k] = mutate_like(r, bv, depth - 1, keys)
            elif bv in (0, 1, True, False, 1.0) and not isinstance(bv, dict) and r.random() < 0.5:
                # equal under ==, different value: 1 / True / 1.0, 0 / False
                d[k] = r.choice([x for x in ([1, True, 1.0] if bv == 1 else [0, False, 0.0])
                                 if type(x) is not type(bv)])
            elif r.random() < 0.5 and depth > 0:
                d[k] = gen_dict(r, depth - 1, 3, keys)
            else:
                d[k] = gen_leaf(r)
        else:
            k = r.choice(keys)
            d[k] = gen_dict(r, depth - 1, 3, keys) if depth > 0 and r.random() < 0.4 else gen_leaf(r)
    return d


def canon(x) -> str:
    return json.dumps(x, sort_keys=True, default=repr)


def tree_term(x) -> str:
    """Python value -> Gallina `tree`."""
    if x is None:
        return "TNone"
    if isinstance(x, bool):
        return f"(TBool {cbool(x)})"
    if isinstance(x, int):
        return f"(TInt {cZ(x)})"
    if isinstance(x, str):
        return f"(TStr {cstr(x)})"
    if isinstance(x, dict):
        return "(TDict " + dict_term(x) + ")"
    return f"(TList {cstr(canon(x))})"


def dict_term(d: dict) -> str:
    for k in d:
        if not isinstance(k, str):
            raise ValueError("non-string key")
    return clist(f"({cstr(k)}, {tree_term(v)})" for k, v in d.items())


def odict_term(d) -> str:
    return "None" if d is None else f"(Some {dict_term(d)})"


def depth(x) -> int:
    return 1 + max([depth(v) for v in x.values()] + [0]) if isinstance(x, dict) else 0
