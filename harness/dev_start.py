import sys, json, subprocess, re
sys.path.insert(0, '/verif')
from harness.core import Check
from harness import start_common as sc
ck = Check("DEV", "quick", int(sys.argv[2]) if len(sys.argv) > 2 else 0)
n = int(sys.argv[1]) if len(sys.argv) > 1 else 100
modes = (sys.argv[3].split(",") if len(sys.argv) > 3 else ["mixed", "nowait", "fail", "cyclic", "missing", "mixed"])
results = sc.collect(ck, n, modes, sc.FIXED)
print("results", len(results), "broken", str(ck.broken[:1])[-2500:])
terms = [sc.case_term(r) for r in results]
bad = ck.coq_eval("start", sc.HEADER, terms, "start_case", "check_start", shard=100)
print("mismatches", len(bad), bad[:10], "broken", len(ck.broken), str(ck.broken[:1])[:1500])
for name, orc in [("C05", sc.oracle_C05), ("C06", sc.oracle_C06_full), ("C07", sc.oracle_C07)]:
    sigs = {}
    for r in results:
        for b in orc(r):
            sigs.setdefault(b[0], []).append(b[1])
    print(name, {k: (len(v), v[0][:300]) for k, v in sigs.items()})
print(json.dumps(sc.distribution(results)))
for i in bad[:2]:
    r = results[i]
    f = "/verif/build/cases/DEV/diag1.v"
    t = sc.case_term(r)
    open(f, "w").write(sc.HEADER + "Open Scope list_scope.\nDefinition c : start_case := " + t + ".\n"
        "Eval vm_compute in (let '(s0, o0) := init (sc_prog c) (sc_timeout c) in (o0, first_bad_step (sc_prog c) 0 s0 (sc_steps c))).\n"
        "Eval vm_compute in (let '(s0, o0) := init (sc_prog c) (sc_timeout c) in let '(ok, s) := run_steps (sc_prog c) s0 (sc_steps c) in (ok, status_of s, visible s, tds s)).\n")
    out = subprocess.run(["coqc", "-Q", "/verif/coq/theories", "Asphalt", f], capture_output=True, text=True)
    print("CASE", i, r["backend"], (out.stdout + out.stderr)[-1500:])
    print(json.dumps(r["prog"]))
    for j, s in enumerate(r["steps"]):
        print(j, s)
    print(r["outcome"], r["table"], r["teardown"], r["finished"], r["late"], r["still_waiting"])
