"""C08 - Service tasks are stopped at teardown before anything they may depend on.
Model Conc/Service.v, theorems Props/C08.v (Conc/ServiceProofs.v), tie K: owner-context programs
(teardown callbacks interleaved with service tasks of every teardown action and behaviour, root and
nested contexts) under the lock-step director on asyncio and trio."""
from __future__ import annotations

import json

from harness.core import COMMON_TRUST, Check, cbool, clist

HEADER = "From Asphalt Require Import Corr.Check_svc.\n"
TRUST = COMMON_TRUST + [
    "modelled, not verified: anyio task groups, cancel scopes (shielded cleanup), Events; the task's own context is "
    "observed through a teardown callback registered inside the task",
    "teardown that is itself cancelled, and an exception escaping a service task, are not in the model: the latter is "
    "checked on the implementation by fixed scenarios",
]


def gen_case(r):
    n = r.choice([1, 1, 2, 2, 3, 4])
    svcs = []
    for sid in range(n):
        action = r.choice(["ACancel", "ACancel", "ANone", "ACall", "ACall", "ACallRaises"])
        run = r.choice([0, 0, 1, 2])
        ends = True if action == "ANone" else r.random() < 0.3
        svcs.append({"action": action, "run": run, "ends": ends, "cleanup": r.choice([0, 0, 1, 2]),
                     "ctx": r.choice([0, 0, 1, 2]), "async_action": r.random() < 0.5})
    prog = []
    cb = 0
    order = list(range(n))
    for sid in order:
        for _ in range(r.choice([0, 1, 1, 2])):
            prog.append(["RegCb", cb])
            cb += 1
        prog.append(["StartSvc", sid])
    for _ in range(r.choice([0, 1, 2])):
        prog.append(["RegCb", cb])
        cb += 1
    prog.append(["EndBlock"])
    return {"svcs": svcs, "prog": prog, "nested": r.random() < 0.5, "choices": [r.randrange(6) for _ in range(60)],
            "block_raises": r.random() < 0.3}      # the block ends with an exception: the same teardown


def svc_term(sv):
    a = {"ACancel": "ACancel", "ANone": "ANone", "ACall": "(ACall false)", "ACallRaises": "(ACall true)"}[sv["action"]]
    return f"(Svc {a} {sv['run']} {cbool(sv['ends'])} {sv['cleanup']} {sv.get('ctx', 0)})"


def bop_term(b):
    return "EndBlock" if b[0] == "EndBlock" else f"({b[0]} {b[1]})"


def gate_term(g):
    return "GBlock" if g == "B" else f"(GTask {g[1:]})"


def obs_list(batch):
    return clist(("Left" if o[0] == "Left" else f"({o[0]} {o[1]})") for o in batch)


def case_term(r):
    steps = clist(f"({gate_term(s['fired'])}, ({clist(gate_term(g) for g in s['enabled'])}, {obs_list(s['obs'])}))"
                  for s in r["steps"])
    return (f"(VC {clist(svc_term(s) for s in r['svcs'])} {clist(bop_term(b) for b in r['prog'])} {steps} "
            f"{cbool(r['left'])})")


# ------------------------------------------------------------------ oracle: the property, restated
def oracle(r):
    bad = []
    for sid, has_before, has_after in r.get("snapshot_bad") or []:
        bad.append(("C08:snapshot", f"service task {sid}'s context is not the snapshot taken when it was started: "
                    f"registered before the call visible={has_before}, registered after the call returned visible={has_after}"))
    log = [o for s in r["steps"] for o in s["obs"]]
    pos = {}
    for i, o in enumerate(log):
        pos.setdefault(tuple(o), []).append(i)
    prog, svcs = r["prog"], r["svcs"]
    started = [b[1] for b in prog if b[0] == "StartSvc"]
    if r["first"]:
        bad.append(("C08:odd", f"observations before the first gate: {r['first']}"))
    # (1) teardown does not proceed to callbacks registered BEFORE the task was started until the task has finished
    seen_cb = []
    for b in prog:
        if b[0] == "RegCb":
            seen_cb.append(b[1])
        elif b[0] == "StartSvc":
            sid = b[1]
            if ("Started", sid) not in pos:
                continue
            for c in seen_cb:
                if ("TdBegin", c) in pos:
                    fin = pos.get(("Finished", sid))
                    if not fin or fin[0] > pos[("TdBegin", c)][0]:
                        bad.append(("C08:teardown-did-not-wait", f"callback {c} (registered before service task {sid}) ran "
                                    f"before the task and its context had finished"))
    # (1b) the finalizer of an EARLIER service task is such a callback too: an earlier task is told to stop (cancelled,
    # its callable invoked) only after every task started after it, and that task's context, has finished
    for x, early in enumerate(started):
        told = [pos[k][0] for k in (("CancelSeen", early), ("ActionInvoked", early)) if k in pos]
        if not told or ("Started", early) not in pos:
            continue
        for later in started[x + 1:]:
            if ("Started", later) not in pos:
                continue
            fin = pos.get(("Finished", later))
            if not fin or fin[0] > min(told):
                bad.append(("C08:stopped-early", f"service task {early} was told to stop before service task {later} "
                            f"(started after it) and its context had finished"))
    # (2) the teardown action
    for sid in started:
        sv = svcs[sid]
        n_act = len(pos.get(("ActionInvoked", sid), []))
        cancelled = ("CancelSeen", sid) in pos
        if sv["action"] in ("ACall", "ACallRaises"):
            if r["left"] and n_act != 1:
                bad.append(("C08:action-count", f"teardown callable of task {sid} was invoked {n_act} times"))
            if sv["action"] == "ACall" and cancelled:
                bad.append(("C08:cancelled-after-callable", f"task {sid} was cancelled although its teardown callable succeeded"))
        else:
            if n_act:
                bad.append(("C08:action-count", f"task {sid} has no teardown callable but one was invoked"))
        if sv["action"] == "ANone" and cancelled:
            bad.append(("C08:cancelled-with-none", f"task {sid} (teardown_action=None) was cancelled"))
        if len(pos.get(("Finished", sid), [])) > 1:
            bad.append(("C08:finished-twice", f"task {sid} finished twice"))
    # (3) nothing is left running once the block has been left
    if r["left"]:
        li = pos[("Left",)][0]
        for sid in started:
            if ("Started", sid) in pos and (("Finished", sid) not in pos or pos[("Finished", sid)][0] > li):
                bad.append(("C08:still-running", f"service task {sid} had not finished when its owning block was left"))
        if r["late"] or r["still_waiting"]:
            bad.append(("C08:still-running", f"after the block was left: {r['late'][:3]} waiting {r['still_waiting']}"))
        for b in prog:
            if b[0] == "RegCb" and len(pos.get(("TdBegin", b[1]), [])) != 1:
                bad.append(("C08:callbacks", f"callback {b[1]} ran {len(pos.get(('TdBegin', b[1]), []))} times"))
    return bad


def collect(ck, n):
    cases = []
    for i in range(n):
        c = gen_case(ck.rng("svc", i))
        c["backend"] = "asyncio" if i % 2 == 0 else "trio"
        cases.append(c)
    chunk = max(1, (len(cases) + 15) // 16)
    chunks = [cases[i:i + chunk] for i in range(0, len(cases), chunk)]
    res = ck.run_impl("impl_svc.py", [{"cases": c} for c in chunks], timeout=900)
    out = []
    for c, rr in zip(chunks, res):
        if "error" in rr:
            ck.broke("impl-runner", rr)
            continue
        out += rr["results"]
    crashed = [r for r in out if "crash" in r]
    if crashed:
        c0 = crashed[0]
        ck.runner_crash({k: c0.get(k) for k in ("backend", "svcs", "prog", "nested", "choices")}, c0["crash"])
    return [r for r in out if "crash" not in r]


def check_crashes(ck):
    """an exception escaping a service task takes the application down: the root `async with` raises it"""
    n = 0
    for nested in (False, True):
        for be in ("asyncio", "trio"):
            case = {"svcs": [{"action": "ACancel", "run": 2, "ends": False, "cleanup": 0, "crash": 2},
                             {"action": "ACancel", "run": 0, "ends": False, "cleanup": 1}],
                    "prog": [["RegCb", 0], ["StartSvc", 1], ["StartSvc", 0], ["RegCb", 1], ["EndBlock"]],
                    "nested": nested, "choices": [], "backend": be,
                    "gates": ["B", "B", "B", "B", "T0", "T0", "T1", "T1", "B", "T1", "T1"]}
            r = ck.run_impl("impl_svc.py", [{"cases": [case]}])[0]
            rr = r["results"][0] if "results" in r else {"crash": r}
            n += 1

            def has_crash(o):
                return isinstance(o, dict) and ("crash" in o or any(has_crash(x) for x in o.get("group", [])))
            if "crash" in rr or not has_crash(rr.get("outcome")):
                ck.fail_input("C08:crash-vanished", f"a service task raised but the root context ended with "
                              f"{rr.get('outcome')}", {"case": case, "observed": rr})
            elif ["Finished", 1] not in [o for s in rr["steps"] for o in s["obs"]] + rr["late"]:
                ck.fail_input("C08:crash-left-task-running", "the other service task was not stopped",
                              {"case": case, "observed": rr})
    # a task whose cleanup raises while it unwinds from the cancellation that teardown sent it
    for nested in (False, True):
        for be in ("asyncio", "trio"):
            for action in ("ACancel", "ACallRaises"):
                for cleanup in (0, 1):
                    case = {"svcs": [{"action": action, "run": 0, "ends": False, "cleanup": cleanup, "crash_on_cancel": True,
                                      "async_action": cleanup == 1},
                                     {"action": "ACancel", "run": 0, "ends": False, "cleanup": 0}],
                            "prog": [["RegCb", 0], ["StartSvc", 1], ["StartSvc", 0], ["RegCb", 1], ["EndBlock"]],
                            "nested": nested, "choices": [], "backend": be,
                            "gates": ["B", "B", "B", "B", "B", "T0", "T0"]}
                    r = ck.run_impl("impl_svc.py", [{"cases": [case]}])[0]
                    rr = r["results"][0] if "results" in r else {"crash": r}
                    n += 1

                    def has_crash(o):
                        return isinstance(o, dict) and ("crash" in o or any(has_crash(x) for x in o.get("group", [])))
                    if "crash" in rr or not has_crash(rr.get("outcome")):
                        ck.fail_input("C08:crash-vanished", f"a service task raised while unwinding from the cancellation "
                                      f"sent at teardown ({action}) but the root context ended with {rr.get('outcome')}",
                                      {"case": case, "observed": rr})
    return n


def run(ck: Check):
    ck.trusted = TRUST
    ck.prove(extra_targets=["Corr/Check_svc.v", "Conc/ServiceExamples.v"])
    results = collect(ck, ck.n(1000, 20000))
    terms = [case_term(r) for r in results]
    bad = ck.coq_eval("svc", HEADER, terms, "svc_case", "check_svc", shard=200)
    sigs, n_fail = {}, 0
    for r in results:
        for sig, what in oracle(r):
            n_fail += 1
            size = len(r["prog"])
            if sig not in sigs or size < sigs[sig][0]:
                sigs[sig] = (size, r, what)
    for sig, (_, r, what) in sigs.items():
        ck.fail_input(sig, what, {"backend": r["backend"], "svcs": r["svcs"], "prog": r["prog"], "nested": r["nested"],
                                  "choices": r["choices"], "block_raises": r.get("block_raises", False),
                                  "steps": r["steps"]})
    for i in bad[:10]:
        if not oracle(results[i]):
            ck.broke("correspondence", {"backend": results[i]["backend"], "svcs": results[i]["svcs"],
                                        "prog": results[i]["prog"], "nested": results[i]["nested"],
                                        "choices": results[i]["choices"],
                                        "block_raises": results[i].get("block_raises", False),
                                        "steps": results[i]["steps"]})
    ncrash = check_crashes(ck)
    ck.run_fixed({"registration_during_a_service_tasks_stop": "C08:action-count",
                  "component_service_task_keeps_its_teardown_action": "C08:cancelled-with-none",
                  "task_started_on_an_outer_context_belongs_to_it": "C08:snapshot"})
    dist = {"actions": {}, "left": 0, "tasks": {}, "nested": 0, "cancel_seen": 0, "stop_seen": 0, "block_raises": 0}
    for r in results:
        dist["block_raises"] += bool(r.get("block_raises"))
        dist["left"] += r["left"]
        dist["nested"] += r["nested"]
        dist["tasks"][len(r["svcs"])] = dist["tasks"].get(len(r["svcs"]), 0) + 1
        for sv in r["svcs"]:
            dist["actions"][sv["action"]] = dist["actions"].get(sv["action"], 0) + 1
        for s in r["steps"]:
            for o in s["obs"]:
                dist["cancel_seen"] += o[0] == "CancelSeen"
                dist["stop_seen"] += o[0] == "StopSeen"
    distinct = {json.dumps([r["svcs"], r["prog"], r["choices"], r["nested"]]): (r["left"] and len(r["svcs"]) >= 2)
                for r in results}
    ck.coverage.update({
        "evaluations": len(results),
        "distinct_nontrivial": sum(1 for v in distinct.values() if v),
        "rule": "seeded owner-context programs: 1-4 service tasks (teardown_action 'cancel' / None / sync or async "
                "callable that succeeds or raises; 0-2 gated segments of own work; ending by itself or waiting to be "
                "told; 0-2 gated, shielded cleanup segments; 0-2 gated segments of teardown of the task's own context) "
                "interleaved with 0-6 teardown callbacks, in a root or a "
                "nested context, every schedule chosen by the director; enabled gates and observation batches "
                "compared with the model at every step. distinct = by (program, schedule); non-trivial = >= 2 "
                "service tasks and the block was left",
        "samples": [{"svcs": r["svcs"], "prog": r["prog"], "steps": r["steps"][:8]} for r in results[:1]],
        "traces_validated_against_impl": len(results) - len(bad),
        "mismatches": len(bad),
        "input_distribution": dist,
        "oracle_failures": n_fail,
        "crash_scenarios": ncrash,
        "partial_clauses": ["an exception escaping a service task (takes the root context down) and teardown that is "
                            "itself cancelled are outside the model; the former is checked on the implementation"],
    })
    if ck.tier == "thorough":
        ck.coqchk()


def replay(ck: Check, obj) -> int:
    rp = obj.get("replay") or obj["no_longer_checks"][0]["detail"]
    if "case" in rp:
        rp = rp["case"]
    case = {"svcs": rp["svcs"], "prog": rp["prog"], "nested": rp["nested"], "choices": rp["choices"],
            "backend": rp["backend"]}
    if rp.get("gates"):
        case["gates"] = rp["gates"]
    case["block_raises"] = bool(rp.get("block_raises"))
    r = ck.run_impl("impl_svc.py", [{"cases": [case]}])[0]["results"][0]
    if "crash" in r and "steps" not in r:
        print(r["crash"])
        return 1
    if any(sv.get("crash") or sv.get("crash_on_cancel") for sv in rp["svcs"]):
        # a fixed scenario: a service task raises; the exception must come out of the root context
        def has_crash(o):
            return isinstance(o, dict) and ("crash" in o or any(has_crash(x) for x in o.get("group", [])))
        for s_ in r.get("steps", []):
            print(s_)
        print("outcome:", r.get("outcome"))
        lost = not has_crash(r.get("outcome"))
        print("ORACLE: C08:crash-vanished" if lost else "the exception came out")
        return 1 if lost else 0
    for s in r.get("steps", []):
        print(s)
    print("left:", r.get("left"), "outcome:", r.get("outcome"))
    bad = oracle(r)
    for b in bad:
        print("ORACLE:", b[0], "-", b[1])
    mism = ck.coq_eval("replay", HEADER, [case_term(r)], "svc_case", "check_svc")
    print("model/implementation correspondence:", "DISAGREE" if mism else "agree")
    return 1 if bad or mism else 0
