"""C13 - Context lifecycle.  Model Ctx/ResModel.v (lifecycle part), theorems Props/C13.v, tie T
(guard table regenerated from the source, Gen/Gen_guards.v + Ctx/GuardTie.v) and K: the
state x operation matrix enumerated exhaustively plus the random histories."""
from harness import res_common as rc


def matrix():
    """every guarded operation in every lifecycle state (never entered, open, inside teardown,
    closed after a clean exit, closed after the block raised), on a root and on a child context."""
    setup_root = [{"op": "New", "p": None}]
    add = {"op": "AddResource", "c": 0, "v": 1, "vty": 0, "name": "x", "types": [], "desc": None, "cb": 7}
    fac = {"op": "AddFactory", "c": 0, "f": 0, "kind": "FSync", "name": "g", "types": [1], "desc": None}
    states = {
        "never": setup_root,
        "open": setup_root + [{"op": "Enter", "c": 0}, add, fac],
        "closing": setup_root + [{"op": "Enter", "c": 0}, add, fac, {"op": "ExitBegin", "c": 0, "exc": False}],
        "closing_exc": setup_root + [{"op": "Enter", "c": 0}, add, fac, {"op": "ExitBegin", "c": 0, "exc": True}],
        "closed": setup_root + [{"op": "Enter", "c": 0}, add, fac, {"op": "ExitBegin", "c": 0, "exc": False},
                                {"op": "ExitEnd", "c": 0}],
        "closed_exc": setup_root + [{"op": "Enter", "c": 0}, add, fac, {"op": "ExitBegin", "c": 0, "exc": True},
                                    {"op": "ExitEnd", "c": 0}],
    }
    ops = [
        {"op": "AddResource", "c": 0, "v": 2, "vty": 2, "name": "y", "types": [], "desc": None, "cb": None},
        {"op": "AddResource", "c": 0, "v": 3, "vty": 2, "name": "z", "types": [2, 3], "desc": 1, "cb": 8},
        {"op": "AddFactory", "c": 0, "f": 1, "kind": "FSync", "name": "h", "types": [2], "desc": None},
        {"op": "AddFactory", "c": 0, "f": 2, "kind": "FAsyncImm", "name": "h", "types": [2, 3], "desc": None},
        {"op": "GetNowait", "c": 0, "t": 0, "name": "x", "optional": False},
        {"op": "GetNowait", "c": 0, "t": 1, "name": "g", "optional": False},
        {"op": "GetNowait", "c": 0, "t": 3, "name": "nope", "optional": True},
        {"op": "GetBegin", "c": 0, "tok": 0, "t": 0, "name": "x", "optional": False},
        {"op": "GetBegin", "c": 0, "tok": 0, "t": 1, "name": "g", "optional": False},
        {"op": "GetBegin", "c": 0, "tok": 0, "t": 3, "name": "nope", "optional": True},
        {"op": "AddTeardown", "c": 0, "cb": 9},
        {"op": "Enter", "c": 0},
        {"op": "GetResources", "c": 0, "t": 0},
    ]
    out = []
    for pre in states.values():
        for o in ops:
            out.append(pre + [o])
            # the same on a child of an open root
            shift = [{"op": "New", "p": None}, {"op": "Enter", "c": 0}, {"op": "New", "p": 0}]
            rest = [dict(x, c=1) if "c" in x else dict(x, p=0) for x in pre[1:] + [o]]
            out.append(shift + rest)
    # leaving a context while a child entered from it is still open
    for exc in (False, True):
        out.append([{"op": "New", "p": None}, {"op": "Enter", "c": 0}, {"op": "New", "p": 0}, {"op": "Enter", "c": 1},
                    {"op": "New", "p": 1}, {"op": "Enter", "c": 2},
                    {"op": "ExitBegin", "c": 1, "exc": exc}, {"op": "ExitEnd", "c": 1},
                    {"op": "ExitBegin", "c": 0, "exc": exc}, {"op": "ExitEnd", "c": 0}])
    return out


def run(ck):
    m = matrix()
    rc.run_property(ck, "mask_C13", rc.oracle_C13, fixed=rc.FIXED_HISTORIES + m,
                    extra_cov={"matrix_histories": len(m), "exhaustive_matrix":
                               "6 lifecycle states x 13 operations x {root, child}, each on asyncio and trio"})
    ck.run_fixed(FIXED_SCENARIOS)


FIXED_SCENARIOS = {"leaked_child_survives_gc": "C13:open-child-ignored",
                   "closed_after_teardown_raised_baseexception": "C13:not-closed-after-teardown-raised",
                   "left_from_another_task_is_closed_all_the_same": "C13:not-closed-after-exit-failed",
                   "lookup_made_inside_awaited_after_the_block_is_refused": "C13:guard:GetResource:closed",
                   "cancelled_exit_with_a_task_still_inside_is_reported": "C13:open-child-ignored"}


def replay(ck, obj):
    return rc.replay_generic(ck, obj, rc.oracle_C13, "mask_C13")
