"""C03 - see properties.jsonl.  Model Ctx/ResModel.v, theorems Props/C03.v,
tie K (histories over context forests, probe of every context after every operation)."""
from harness import res_common as rc


def run(ck):
    rc.run_property(ck, "mask_C03", rc.oracle_C03, fixed=rc.FIXED_HISTORIES)
    ck.run_fixed({"failed_adds_of_unusual_shapes_change_nothing": "C03:failed-add-changed-state",
                  "lookup_paths_agree_inside_a_component": "C03:lookup-changed"})


def replay(ck, obj):
    return rc.replay_generic(ck, obj, rc.oracle_C03, "mask_C03")
