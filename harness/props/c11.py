"""C11 - Every (instance, signal attribute) pair is an independent channel.
Model Ev/SigModel.v, theorems Props/C11.v, tie K (signal programs under the lock-step director)."""
from harness import sig_common as sc


def run(ck):
    sc.run_property(ck, sc.oracle_C11)
    ck.run_fixed({"class_change_keeps_the_channel_and_class_level_use_is_refused": "C11:identity",
                  "one_stream_over_equal_owners": "C11:shared-channel",
                  "overriding_signal_has_its_own_event_class": "C11:typecheck"})


def replay(ck, obj):
    return sc.replay_generic(ck, obj, sc.oracle_C11)
