"""C11 - Every (instance, signal attribute) pair is an independent channel.
Model Ev/SigModel.v, theorems Props/C11.v, tie K (signal programs under the lock-step director)."""
from harness import sig_common as sc


def run(ck):
    sc.run_property(ck, sc.oracle_C11)


def replay(ck, obj):
    return sc.replay_generic(ck, obj, sc.oracle_C11)
