"""C10 - Events reach exactly the active subscribers, exactly once, in dispatch order.
Model Ev/SigModel.v, theorems Props/C10.v, tie K (signal programs under the lock-step director)."""
from harness import sig_common as sc


def run(ck):
    sc.run_property(ck, sc.oracle_C10)
    ck.run_fixed({"failed_subscription_leaves_nothing": "C10:dispatch-raised",
                  "redispatched_event_is_stamped_again": "C10:stamp",
                  "one_stream_over_equal_owners": "C10:not-subscribed",
                  "dead_iterator_inside_its_block_disturbs_nobody": "C10:dispatch-raised",
                  "queued_event_keeps_its_source": "C10:stamp"})


def replay(ck, obj):
    return sc.replay_generic(ck, obj, sc.oracle_C10)
