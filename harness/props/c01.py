"""C01 - Context teardown runs every callback exactly once, LIFO, one at a time.
Model Td/TdModel.v, theorems Props/C01.v (Td/TdProofs.v), tie K (generated teardown programs run on
real contexts, trace/outcome/closed compared inside Coq) + T (coalesce_exceptions parameters
regenerated from the source, Gen/Gen_coalesce.v)."""
from __future__ import annotations

import copy
import itertools
import json

from harness.core import COMMON_TRUST, Check, cbool, clist, cnat

HEADER = "From Asphalt Require Import Corr.Check_td.\n"
TRUST = COMMON_TRUST + [
    "translator translate/py2coq.py for the three parameters of coalesce_exceptions (which groups it catches, "
    "the member count it unwraps, whether the member may be a group)",
    "modelled, not verified: AsyncExitStack ordering, the root context's task group (wraps what passes through it "
    "in one exception group), level cancellation of checkpoints inside a cancelled scope; exceptions are opaque "
    "identities with an is-Exception bit and group structure",
]


# ------------------------------------------------------------------ generation
def gen_exc(r, counter, allow_group=True):
    k = r.random()
    if allow_group and k < 0.12:
        return {"group": [gen_exc(r, counter, False) for _ in range(r.choice([1, 2]))]}
    counter[0] += 1
    return {"leaf": counter[0], "is_exc": k < 0.7}


def gen_cbs(r, ids, excs, depth, parent_async, cancel, ending=None):
    """one callback, possibly preceded by callbacks that the following @context_teardown generator registers itself
    before it yields (they come first in registration order)"""
    cb = gen_cb(r, ids, excs, depth, parent_async, cancel, ending)
    out = []
    if cb["route"] == "ctxtd" and r.random() < 0.4:
        for _ in range(r.choice([1, 1, 2])):
            p = {"id": next(ids), "route": r.choice(["method", "shortcut", "resource"]),
                 "kind": r.choice(["sync", "async"]), "pass": r.random() < 0.5, "susp": 0, "raises": None, "adds": [],
                 "inside_next": True}
            if p["route"] == "resource":
                p["pass"] = False
            if p["kind"] == "async":
                p["susp"] = r.choice([0, 1])
            out.append(p)
    return out + [cb]


def gen_cb(r, ids, excs, depth, parent_async, cancel, ending=None):
    kind = r.choice(["sync", "sync", "async", "async", "awaitable"])
    routes = ["method", "method", "shortcut", "resource"]
    if parent_async:
        routes += ["ctxtd", "ctxtd"] + ([] if cancel else ["service"])
    route = r.choice(routes)
    cb = {"id": next(ids), "route": route, "kind": kind, "pass": r.random() < 0.5, "susp": 0, "raises": None,
          "adds": []}
    if route == "resource":
        cb["pass"] = False
    if route == "ctxtd":
        cb["pass"], cb["kind"] = True, "async"
    if route == "service":
        cb["pass"] = False
        cb["kind"] = r.choice(["sync", "async"])
        cb["susp"] = r.choice([0, 1, 2])
    else:
        if cb["kind"] != "sync":
            cb["susp"] = r.choice([0, 1, 1, 2])
        if r.random() < 0.35:
            cb["raises"] = gen_exc(r, excs)
            if ending is not None and ending["k"] == "raise" and cb["pass"] and r.random() < 0.3:
                # the callback re-raises the very exception it was handed
                cb["raises"] = copy.deepcopy(ending["exc"])
                cb["raises_same"] = True
    if depth < 3 and r.random() < (0.45 if depth == 0 else 0.3):
        for _ in range(r.choice([1, 1, 2])):
            cb["adds"] += gen_cbs(r, ids, excs, depth + 1, cb["kind"] != "sync", cancel, ending)
    return cb


def count(cbs):
    return sum(1 + count(c["adds"]) for c in cbs)


def gen_prog(r):
    ids, excs = itertools.count(1), [100]
    k = r.random()
    if k < 0.45:
        ending = {"k": "return"}
    elif k < 0.85:
        ending = {"k": "raise", "exc": gen_exc(r, excs)}
    else:
        ending = {"k": "cancel"}
    cancel = ending["k"] == "cancel"
    cbs = []
    for _ in range(r.choice([0, 1, 2, 3, 3, 4, 5])):
        cbs += gen_cbs(r, ids, excs, 0, True, cancel, ending)
        if count(cbs) >= 12:
            break
    # the same callable registered twice (with something else in between) is two registrations
    plain = [c for c in cbs if c["route"] in ("method", "shortcut") and c["kind"] in ("sync", "async")
             and not c["adds"] and not c.get("inside_next")]
    if plain and len(cbs) >= 2 and r.random() < 0.2 and cbs[-1] is not plain[0]:
        cbs.append(dict(plain[0], twin=True))
    return {"root": r.random() < 0.5, "outer_exc": r.random() < 0.25, "ending": ending, "cbs": cbs}


def exhaustive_small():
    """all forests with <= 3 callbacks over {sync, async-suspending} x {raises, not} (routes method/ctxtd),
    x endings {return, raise Exception} x {root, child}"""
    progs = []
    shapes = [[], [[]], [[], []], [[[]]], [[], [], []], [[[]], []], [[], [[]]], [[[], []]], [[[[]]]]]

    def build(shape, ids, flavour):
        out = []
        for sub in shape:
            i = next(ids)
            fl = flavour[(i - 1) % len(flavour)]
            out.append({"id": i, "route": "ctxtd" if fl[0] == "a" and i % 2 == 0 else "method", "kind": "async" if fl[0] == "a" else "sync",
                        "pass": True, "susp": 1 if fl[0] == "a" else 0,
                        "raises": {"leaf": 100 + i, "is_exc": fl[1] == "e"} if fl[1] != "-" else None,
                        "adds": []})
            if fl[0] == "a":
                out[-1]["adds"] = build(sub, ids, flavour)
            else:
                out[-1]["adds"] = [dict(c, route="method") for c in build(sub, ids, flavour)]
        return out
    flavours = [p for p in itertools.product(["a-", "ae", "ab", "s-", "se"], repeat=3)]
    for shape in shapes:
        for fl in flavours:
            for root in (True, False):
                for ending in ({"k": "return"}, {"k": "raise", "exc": {"leaf": 50, "is_exc": True}}):
                    progs.append({"root": root, "outer_exc": False, "ending": ending,
                                  "cbs": build(shape, itertools.count(1), fl)})
    return progs


FIXED = [
    # F12: clean exit inside an except block; pass_exception must receive None
    {"root": False, "outer_exc": True, "ending": {"k": "return"},
     "cbs": [{"id": 1, "route": "method", "kind": "sync", "pass": True, "susp": 0, "raises": None, "adds": []},
             {"id": 2, "route": "ctxtd", "kind": "async", "pass": True, "susp": 1, "raises": None, "adds": []}]},
    # a BaseException from the first callback to run must not stop the others; callbacks added during teardown
    {"root": True, "outer_exc": False, "ending": {"k": "raise", "exc": {"leaf": 101, "is_exc": True}},
     "cbs": [{"id": 1, "route": "resource", "kind": "sync", "pass": False, "susp": 0, "raises": None, "adds": []},
             {"id": 2, "route": "method", "kind": "async", "pass": True, "susp": 2,
              "raises": {"leaf": 102, "is_exc": True},
              "adds": [{"id": 3, "route": "shortcut", "kind": "sync", "pass": True, "susp": 0, "raises": None, "adds": []},
                       {"id": 4, "route": "service", "kind": "sync", "pass": False, "susp": 1, "raises": None, "adds": []}]},
             {"id": 5, "route": "method", "kind": "awaitable", "pass": False, "susp": 1,
              "raises": {"leaf": 103, "is_exc": False}, "adds": []}]},
]


# ------------------------------------------------------------------ printing
def exc_term(d):
    if d is None:
        return "None"
    if "group" in d:
        return "(Grp " + clist(exc_term(x) for x in d["group"]) + ")"
    return f"(Leaf {cnat(d['leaf'])} {cbool(d['is_exc'])})"


def oexc_term(d):
    return "None" if d is None else f"(Some {exc_term(d)})"


def cb_term(cb):
    susp = cb["susp"] > 0 and cb["kind"] != "sync" and cb["route"] != "service"
    return (f"(CB {cb['id']} {cbool(cb['pass'])} {cbool(susp)} {oexc_term(cb['raises'])} "
            f"{clist(cb_term(c) for c in cb['adds'])})")


def ending_term(e):
    return {"return": "Return", "cancel": "Cancel"}.get(e["k"]) or f"(Raise {exc_term(e['exc'])})"


def obs_term(r):
    tr = []
    for e in r["trace"]:
        if e["ev"] == "Begin":
            arg = f"(Some {oexc_term(e['arg'])})" if e["given"] else "None"
            tr.append(f"(Begin {e['id']} {arg})")
        else:
            how = {"ok": "HOk", "cancelled": "HCancelled"}.get(e["how"]) or f"(HRaised {exc_term(e['exc'])})"
            tr.append(f"(End_ {e['id']} {how})")
    o = r["outcome"]
    out = {"normal": "ONormal", "cancelled": "OCancelled"}.get(o["k"]) or \
        f"(ORaise {exc_term(o['exc'])} {oexc_term(o['cause'])})"
    return f"(RR {clist(tr)} {out} {cbool(r['closed'])})"


def case_term(r):
    p = r["prog"]
    return f"(TC {cbool(p['root'])} {clist(cb_term(c) for c in p['cbs'])} {ending_term(p['ending'])} {obs_term(r)})"


# ------------------------------------------------------------------ oracle (the property, restated)
def flat(cbs):
    for c in cbs:
        yield c
        yield from flat(c["adds"])


def expected_order(cbs):
    """strict reverse order of registration, callbacks registered during teardown included"""
    out = []
    stack = list(cbs)
    while stack:
        c = stack.pop()
        out.append(c)
        stack.extend(c["adds"])
    return out


def leaves(d):
    if d is None:
        return []
    if "group" in d:
        return [x for m in d["group"] for x in leaves(m)]
    return [d["leaf"]]


def oracle(r):
    bad = []
    p = r["prog"]
    tr = r["trace"]
    begun = [e["id"] for e in tr if e["ev"] == "Begin"]
    allc = list(flat(p["cbs"]))
    ids = [c["id"] for c in allc]
    byid = {c["id"]: c for c in allc}
    cancel = p["ending"]["k"] == "cancel"
    for i in sorted(set(ids)):
        n, want = begun.count(i), ids.count(i)       # one invocation per REGISTRATION
        if n < want:
            bad.append(("C01:not-invoked", f"callback {i} was registered {want} times and invoked {n} times"))
        elif n > want:
            bad.append(("C01:invoked-twice", f"callback {i} was registered {want} times and invoked {n} times"))
    exp = [c["id"] for c in expected_order(p["cbs"])]
    if sorted(begun) == sorted(exp) and begun != exp:
        bad.append(("C01:order", f"callbacks ran in order {begun}, reverse registration order is {exp}"))
    open_ = None
    for e in tr:
        if e["ev"] == "Begin":
            if open_ is not None:
                bad.append(("C01:overlap", f"callback {e['id']} began before callback {open_} had completed"))
            open_ = e["id"]
        elif e["ev"] == "End":
            if open_ == e["id"]:
                open_ = None
    orig = p["ending"].get("exc") if p["ending"]["k"] == "raise" else None
    for e in tr:
        if e["ev"] == "Begin" and e["id"] in byid:
            c = byid[e["id"]]
            if c["route"] == "service":
                continue
            if c["pass"] != e["given"]:
                bad.append(("C01:argument", f"callback {e['id']} (pass_exception={c['pass']}) was called "
                            f"{'with' if e['given'] else 'without'} an argument"))
            elif c["pass"]:
                want = {"leaf": 999, "is_exc": False} if cancel else orig
                if e["arg"] != want:
                    bad.append(("C01:argument", f"callback {e['id']} received {e['arg']}, the block ended with {want}"))
    if not r["closed"]:
        bad.append(("C01:not-closed", "the context does not report itself closed afterwards"))
    if not cancel:
        raised = [c["raises"] for c in expected_order(p["cbs"]) if c["raises"] is not None]
        o = r["outcome"]
        if not raised:
            if orig is None and o["k"] != "normal":
                bad.append(("C01:outcome", f"clean block, no callback raised, but the caller saw {o}"))
            if orig is not None:
                if o["k"] != "raise":
                    bad.append(("C01:outcome", "the block's exception was swallowed"))
                elif "leaf" in orig and orig["is_exc"] and o["exc"] != orig:
                    bad.append(("C01:outcome", f"the block ended with {orig} but the caller saw {o['exc']}"))
                elif sorted(leaves(o["exc"])) != sorted(leaves(orig)):
                    bad.append(("C01:outcome", f"the block ended with {orig} but the caller saw {o['exc']}"))
        else:
            want = sorted(x for d in raised for x in leaves(d))
            if o["k"] != "raise" or sorted(leaves(o["exc"])) != want:
                bad.append(("C01:exceptions-lost", f"callbacks raised {want}, the caller saw {o}"))
            elif "group" not in o["exc"]:
                bad.append(("C01:exceptions-lost", f"callback exceptions were not raised as a group: {o}"))
            elif o["cause"] != orig:
                bad.append(("C01:cause", f"the teardown group's cause is {o['cause']}, the block ended with {orig}"))
    return bad


def run_cases(ck, progs):
    cases = [{"prog": p, "backend": be} for p in progs for be in ("asyncio", "trio")]
    chunk = max(1, (len(cases) + 15) // 16)
    chunks = [cases[i:i + chunk] for i in range(0, len(cases), chunk)]
    res = ck.run_impl("impl_td.py", [{"cases": c} for c in chunks], timeout=900)
    out = []
    for c, r in zip(chunks, res):
        if "error" in r:
            ck.broke("impl-runner", r)
            continue
        out += r["results"]
    crashed = [r for r in out if "crash" in r]
    if crashed:
        ck.runner_crash({"backend": crashed[0]["backend"], "prog": crashed[0]["prog"]}, crashed[0]["crash"])
    return [r for r in out if "crash" not in r]


def run(ck: Check):
    ck.trusted = TRUST
    ck.prove(extra_targets=["Corr/Check_td.v", "Td/TdExamples.v"])
    progs = list(FIXED)
    for i in range(ck.n(700, 25000)):
        progs.append(gen_prog(ck.rng("prog", i)))
    exhaustive = ck.tier == "thorough"
    if exhaustive:
        progs += exhaustive_small()
    results = run_cases(ck, progs)
    terms = [case_term(r) for r in results]
    bad = ck.coq_eval("td", HEADER, terms, "td_case", "check_td", shard=300)
    ck.run_fixed({"rejected_add_registers_no_callback": "C01:invoked-unregistered",
                  "second_half_runs_at_the_outer_teardown": "C01:not-invoked"})
    sigs, n_fail = {}, 0
    for r in results:
        for sig, what in oracle(r):
            n_fail += 1
            if sig not in sigs or count(r["prog"]["cbs"]) < count(sigs[sig][0]["prog"]["cbs"]):
                sigs[sig] = (r, what)
    for sig, (r, what) in sigs.items():
        ck.fail_input(sig, what, {"backend": r["backend"], "prog": r["prog"], "trace": r["trace"],
                                  "outcome": r["outcome"], "closed": r["closed"]})
    for i in bad[:10]:
        if not oracle(results[i]):
            ck.broke("correspondence", {"backend": results[i]["backend"], "prog": results[i]["prog"],
                                        "trace": results[i]["trace"], "outcome": results[i]["outcome"]})
    dist = {"callbacks": {}, "endings": {}, "routes": {}, "kinds": {}, "raising": 0, "added_during_teardown": 0,
            "root": 0, "outer_exc": 0}
    for p in progs:
        n = count(p["cbs"])
        dist["callbacks"][n] = dist["callbacks"].get(n, 0) + 1
        dist["endings"][p["ending"]["k"]] = dist["endings"].get(p["ending"]["k"], 0) + 1
        dist["root"] += p["root"]
        dist["outer_exc"] += p["outer_exc"]
        for c in flat(p["cbs"]):
            dist["routes"][c["route"]] = dist["routes"].get(c["route"], 0) + 1
            dist["kinds"][c["kind"]] = dist["kinds"].get(c["kind"], 0) + 1
            dist["raising"] += c["raises"] is not None
            dist["added_during_teardown"] += len(c["adds"])
    distinct = {json.dumps(p, sort_keys=True): count(p["cbs"]) >= 2 for p in progs}
    ck.coverage.update({
        "evaluations": len(results),
        "distinct_nontrivial": sum(1 for v in distinct.values() if v),
        "rule": "seeded teardown programs: forests of up to 12 callbacks (depth <= 3) registered through "
                "add_teardown_callback (method and module-level shortcut), add_resource(teardown_callback=), "
                "@context_teardown and start_service_task finalizers; sync / async (0-2 checkpoints) / returning an "
                "awaitable; with and without pass_exception; 35% raise (Exception, BaseException subclasses, groups); "
                "callbacks registering further callbacks while they run; block ends by return / exception (leaf or "
                "group) / cancellation of an enclosing scope; root and nested contexts; 25% while an unrelated "
                "exception is being handled; each program on asyncio and trio"
                + ("; plus ALL forests of <= 3 callbacks over 5 callback flavours x {return, raise} x {root, child}"
                   if exhaustive else "")
                + ". distinct = by program; non-trivial = at least two callbacks",
        "samples": [{"prog": r["prog"], "trace": r["trace"], "outcome": r["outcome"]} for r in results[4:6]],
        "traces_validated_against_impl": len(results) - len(bad),
        "mismatches": len(bad),
        "input_distribution": dist,
        "oracle_failures": n_fail,
        "partial_clauses": ["under cancellation of the block the exception finally let out by the enclosing cancel "
                            "scope is backend specific and not compared; invocation order, arguments, one-at-a-time "
                            "and `closed` are"],
    })
    if ck.tier == "thorough":
        ck.coqchk()


def replay(ck: Check, obj) -> int:
    rp = obj.get("replay") or obj["no_longer_checks"][0]["detail"]
    r = run_cases(ck, [rp["prog"]])
    r = [x for x in r if x["backend"] == rp["backend"]]
    if not r:
        return 1              # the runner crashed again on this input (reported by run_cases)
    r = r[0]
    print("trace:", r["trace"])
    print("outcome:", r["outcome"], "closed:", r["closed"])
    bad = oracle(r)
    for b in bad:
        print("ORACLE:", b[0], "-", b[1])
    mism = ck.coq_eval("replay", HEADER, [case_term(r)], "td_case", "check_td")
    print("model/implementation correspondence:", "DISAGREE" if mism else "agree")
    return 1 if bad or mism else 0
