"""C04 - see properties.jsonl.  Model Ctx/ResModel.v, theorems Props/C04.v,
tie K (histories over context forests, probe of every context after every operation)."""
from harness import res_common as rc


def run(ck):
    rc.run_property(ck, "mask_C04", rc.oracle_C04, fixed=rc.FIXED_HISTORIES)
    ck.run_fixed({"failed_generation_with_waiters": "C04:factory-called-again-after-failed-generation",
                  "waiting_component_gets_the_async_factorys_product": "C04:async-lookup-does-not-generate",
                  "racing_lookups_generate_once": "C04:factory-called-twice"})


def replay(ck, obj):
    return rc.replay_generic(ck, obj, rc.oracle_C04, "mask_C04")
