"""C05 - see properties.jsonl.  Model Conc/Startup.v (control skeleton Conc/Skeleton.v), theorems
Props/C05.v, tie K: generated component trees run with the real start_component under the lock-step
director (virtual time), compared with the model at every step."""
from harness import start_common as sc

MODES = {"05": ["nowait", "mixed", "mixed", "cyclic"], "06": ["mixed", "mixed", "missing", "cyclic", "mixed"],
         "07": ["fail", "fail", "mixed", "missing", "cyclic"]}["05"]
ORACLE = {"05": sc.oracle_C05, "06": sc.oracle_C06_full, "07": sc.oracle_C07}["05"]


def run(ck):
    sc.run_property(ck, ORACLE, MODES)
    ck.run_fixed({"every_registration_of_a_component_is_torn_down": "C05:resource-teardown",
                  "factories_waiting_on_each_other_complete": "C05:acyclic-pattern-failed",
                  "nested_tree_publications_release_waiters": "C05:acyclic-pattern-failed",
                  "same_configuration_object_started_twice": "C05:once",
                  "tree_started_in_a_nested_context_belongs_to_it": "C05:resource-teardown"})


def replay(ck, obj):
    return sc.replay_generic(ck, obj, ORACLE)
