"""C12 - current_context() follows strict per-task stack discipline.
Model Conc/CurCtx.v, theorems Props/C12.v (Conc/CurCtxProofs.v), tie K: generated multi-task programs
under a lock-step director on asyncio and trio."""
from __future__ import annotations

import json

from harness.core import COMMON_TRUST, Check, clist

HEADER = "From Asphalt Require Import Corr.Check_cur.\n"
TRUST = COMMON_TRUST + [
    "modelled, not verified: contextvars (copied when a task is spawned), anyio task groups and cancel scopes; a "
    "context is identified by (creating task, creation index)",
    "tasks are real tasks driven one command at a time by a director; quiescence = trio.testing.wait_all_tasks_blocked / "
    "asyncio ready queue observed empty twice",
]


def cid(c):
    return "None" if c is None else (f"(Some ({c[0]}, {c[1]}))" if isinstance(c[0], int) else "(Some (99, 99))")


def op_term(op):
    k = op["op"]
    if k == "Leave":
        return f"(Leave {op['t']} {op['how']})"
    if k == "Spawn":
        return f"(Spawn {op['t']} {op['kind']})"
    return f"({k} {op['t']})"


def out_term(o):
    k = o["k"]
    if k == "Entered":
        if not o.get("cur_ok"):
            return "OInvalid"
        return f"(OEntered ({o['c'][0]}, {o['c'][1]}) {cid(o['parent'])})"
    if k == "Current":
        return f"(OCurrent {cid(o['c'])})" if o.get("td_ok", True) else "OInvalid"
    if k == "Parent":
        return f"(OParent {cid(o['p'])})" if o.get("comp_ok", True) and o.get("view_ok", True) else "OInvalid"
    if k == "Spawned":
        return f"(OSpawned {o['t']} {cid(o['cur'])} {cid(o['parent'])})"
    if k == "Done":
        return "ODone"
    return "OInvalid"


def case_term(r):
    return clist(f"({op_term(s['op'])}, {out_term(s['out'])})" for s in r["steps"])


# ------------------------------------------------------------------ oracle: the property, restated
def oracle(r):
    bad = []
    stacks = {0: []}          # per task: contexts it is inside of (inherited base first)
    pre_parent = {}
    for i, s in enumerate(r["steps"]):
        op, o = s["op"], s["out"]
        t = op["t"]
        st = stacks.setdefault(t, [])
        top = st[-1] if st else None
        if o["k"] == "odd":
            bad.append(("C12:odd", f"step {i}: {op} produced {o}"))
            continue
        if op["op"] == "NewCtx":
            pre_parent[t] = top
        if op["op"] == "EnterPre":
            if not o.get("cur_ok"):
                bad.append(("C12:top", f"step {i}: inside `async with ctx` current_context() is not that context"))
            if o["parent"] != pre_parent.get(t):
                bad.append(("C12:parent", f"step {i}: the context's parent is {o['parent']}, at its creation the current "
                            f"context was {pre_parent.get(t)}"))
            st.append(o["c"])
        elif op["op"] == "Enter":
            if not o.get("cur_ok"):
                bad.append(("C12:top", f"step {i}: inside `async with Context()` current_context() is not that context"))
            if o["parent"] != top:
                bad.append(("C12:parent", f"step {i}: task {t} created a context with parent {o['parent']}, its current "
                            f"context was {top}"))
            st.append(o["c"])
        elif op["op"] == "Leave":
            if st:
                st.pop()
            now = st[-1] if st else None
            if o["c"] != now:
                bad.append((f"C12:restore:{op['how']}", f"step {i}: after leaving ({op['how']}) task {t} sees {o['c']}, "
                            f"before entry it saw {now}"))
            if not o.get("td_ok", True):
                bad.append(("C12:during-teardown", f"step {i}: inside a teardown callback of the context being left "
                            f"({op['how']}): current_context() is that context: {o.get('td', {}).get('cur')}, a new "
                            f"context takes it as parent: {o.get('td', {}).get('parent')}"))
        elif op["op"] == "Observe":
            if o["c"] != top:
                bad.append(("C12:isolation", f"step {i}: task {t} observes {o['c']}, its own innermost context is {top}"))
        elif op["op"] in ("NewCtx", "CompProbe"):
            if o.get("p") != top or not o.get("comp_ok", True):
                bad.append(("C12:parent", f"step {i}: {op['op']} in task {t}: parent {o.get('p')} (component frame ok: "
                            f"{o.get('comp_ok', True)}), current was {top}"))
            if not o.get("view_ok", True):
                bad.append(("C12:component-child-view", f"step {i}: a context created inside a component's prepare()/"
                            f"start() has the right parent but does not see what that parent holds at that moment"))
        elif op["op"] == "Spawn" and o["k"] == "Spawned":
            if op["kind"] == "SPlain":
                if o["cur"] != top:
                    bad.append(("C12:inherit", f"step {i}: spawned task starts with {o['cur']}, the spawner's current "
                                f"context was {top}"))
                stacks[o["t"]] = [top] if top else []
            else:
                if o["parent"] != top:
                    bad.append(("C12:inherit", f"step {i}: service task context's parent is {o['parent']}, owner {top}"))
                stacks[o["t"]] = [top, o["cur"]]
    return bad


def collect(ck, n_cases, n_ops, fixed=()):
    cases = [{"ops": f, "backend": be} for f in fixed for be in ("asyncio", "trio")]
    cases += [{"seed": f"{ck.seed}:cur:{ck.tier}:{i}", "n": n_ops, "backend": "asyncio" if i % 2 == 0 else "trio"}
              for i in range(n_cases)]
    chunk = max(1, (len(cases) + 15) // 16)
    chunks = [cases[i:i + chunk] for i in range(0, len(cases), chunk)]
    res = ck.run_impl("impl_cur.py", [{"cases": c} for c in chunks], timeout=900)
    out = []
    for c, r in zip(chunks, res):
        if "error" in r:
            ck.broke("impl-runner", r)
            continue
        out += r["results"]
    crashed = [r for r in out if "crash" in r]
    if crashed:
        ck.runner_crash({"backend": crashed[0].get("backend"), "case_seed": crashed[0].get("seed")}, crashed[0]["crash"])
    return [r for r in out if "crash" not in r]


FIXED = [
    # a context created while another one was current, entered later: leaving restores what was current
    # at ENTRY, not the context's parent
    [{"op": "Enter", "t": 0}, {"op": "NewCtx", "t": 0}, {"op": "Enter", "t": 0}, {"op": "EnterPre", "t": 0},
     {"op": "Observe", "t": 0}, {"op": "Leave", "t": 0, "how": "ByReturn"}, {"op": "Observe", "t": 0},
     {"op": "Leave", "t": 0, "how": "ByException"}, {"op": "Observe", "t": 0}],
    [{"op": "NewCtx", "t": 0}, {"op": "Enter", "t": 0}, {"op": "EnterPre", "t": 0},
     {"op": "Leave", "t": 0, "how": "ByCancel"}, {"op": "Observe", "t": 0}],
    [{"op": "Observe", "t": 0}, {"op": "Enter", "t": 0}, {"op": "Spawn", "t": 0, "kind": "SPlain"},
     {"op": "Enter", "t": 1}, {"op": "Enter", "t": 0}, {"op": "Observe", "t": 1}, {"op": "Leave", "t": 0, "how": "ByTeardownError"},
     {"op": "Observe", "t": 1}, {"op": "Leave", "t": 1, "how": "ByCancel"}, {"op": "Observe", "t": 0},
     {"op": "Spawn", "t": 0, "kind": "SService", "via": "service"}, {"op": "Enter", "t": 2}, {"op": "CompProbe", "t": 2},
     {"op": "Leave", "t": 2, "how": "ByException"}, {"op": "Finish", "t": 2}, {"op": "Leave", "t": 0, "how": "ByReturn"},
     {"op": "Observe", "t": 0}],
]


def run(ck: Check):
    ck.trusted = TRUST
    ck.prove(extra_targets=["Corr/Check_cur.v", "Conc/CurCtxExamples.v"])
    results = collect(ck, ck.n(1200, 25000), 28, FIXED)
    terms = [case_term(r) for r in results]
    bad = ck.coq_eval("cur", HEADER, terms, "cur_case", "check_cur", shard=200)
    ck.run_fixed({"inherited_context_outlives_block": "C12:inherit", "leaked_inner_context": "C12:restore:leaked-inner",
                  "parent_left_before_child": "C12:restore:parent-left-first",
                  "leaving_a_context_with_an_explicit_parent": "C12:restore:explicit-parent",
                  "failing_factory_leaves_the_current_context_alone": "C12:restore:failed-factory",
                  "refused_entry_changes_nothing": "C12:restore:refused-entry",
                  "parent_is_the_current_context_itself": "C12:parent",
                  "closing_anothers_context_leaves_the_closers_own_alone": "C12:disturbed-by-another-task",
                  "callback_registered_from_elsewhere_runs_in_its_own_context": "C12:during-teardown",
                  "task_started_on_an_outer_context_belongs_to_it": "C12:parent",
                  "context_created_in_a_nested_component_has_a_plain_parent": "C12:parent"})
    sigs, n_fail = {}, 0
    for r in results:
        for sig, what in oracle(r):
            n_fail += 1
            sigs.setdefault(sig, (r, what))
    for sig, (r, what) in sigs.items():
        ck.fail_input(sig, what, {"backend": r["backend"], "ops": [s["op"] for s in r["steps"]],
                                  "outs": [s["out"] for s in r["steps"]]})
    for i in bad[:10]:
        if not oracle(results[i]):
            ck.broke("correspondence", {"backend": results[i]["backend"], "seed": results[i].get("seed"),
                                        "ops": [s["op"] for s in results[i]["steps"]],
                                        "outs": [s["out"] for s in results[i]["steps"]]})
    dist = {"ops": {}, "leave_kinds": {}, "tasks": {}, "max_depth": 0}
    for r in results:
        nt = 1 + sum(1 for s in r["steps"] if s["op"]["op"] == "Spawn")
        dist["tasks"][nt] = dist["tasks"].get(nt, 0) + 1
        for s in r["steps"]:
            k = s["op"]["op"]
            dist["ops"][k] = dist["ops"].get(k, 0) + 1
            if k == "Leave":
                dist["leave_kinds"][s["op"]["how"]] = dist["leave_kinds"].get(s["op"]["how"], 0) + 1
    distinct = {json.dumps([s["op"] for s in r["steps"]]):
                (sum(1 for s in r["steps"] if s["op"]["op"] == "Spawn") >= 1
                 and sum(1 for s in r["steps"] if s["op"]["op"] == "Leave") >= 2) for r in results}
    ck.coverage.update({
        "evaluations": len(results),
        "distinct_nontrivial": sum(1 for v in distinct.values() if v),
        "rule": "seeded programs of up to 5 tasks, each entering and leaving nested contexts (depth <= 4) by return / "
                "exception / cancellation of an enclosing scope / failing teardown callback, observing "
                "current_context(), creating contexts (parent check), starting a probe component (current context and "
                "new-context parent inside prepare()/start()), spawning tasks through task groups and "
                "start_service_task; one command at a time under a lock-step director on asyncio and trio. distinct = "
                "by op list; non-trivial = at least one spawned task and two leaves",
        "samples": [{"backend": r["backend"], "steps": r["steps"][:10]} for r in results[2:3]],
        "traces_validated_against_impl": len(results) - len(bad),
        "mismatches": len(bad),
        "input_distribution": dist,
        "oracle_failures": n_fail,
    })
    if ck.tier == "thorough":
        ck.coqchk()


def replay(ck: Check, obj) -> int:
    rp = obj.get("replay") or obj["no_longer_checks"][0]["detail"]
    r = ck.run_impl("impl_cur.py", [{"cases": [{"ops": rp["ops"], "backend": rp["backend"]}]}])[0]["results"][0]
    for s in r["steps"]:
        print(s["op"], "->", s["out"])
    bad = oracle(r)
    for b in bad:
        print("ORACLE:", b[0], "-", b[1])
    mism = ck.coq_eval("replay", HEADER, [case_term(r)], "cur_case", "check_cur")
    print("model/implementation correspondence:", "DISAGREE" if mism else "agree")
    return 1 if bad or mism else 0
