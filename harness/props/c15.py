"""C15 - run_application: every ending tears down the root context, exits as documented.
Model Conc/Runner.v (numbers from Gen/Gen_exitcode.v, regenerated from _runner.py on every run: tie T),
theorems Props/C15.v (Conc/RunnerProofs.v), tie K: generated applications (component trees whose
prepare()/start() run scripted actions, CLI and plain) run through the real run_application() on
asyncio and trio; the history of what the application's code really did, the teardown observations and
the way run_application ended are compared with the model."""
from __future__ import annotations

import json

from harness.core import COMMON_TRUST, Check, cbool, clist

HEADER = "From Asphalt Require Import Corr.Check_run.\nOpen Scope Z_scope.\n"
TRUST = COMMON_TRUST + [
    "translator translate/py2coq.py (Python ast -> Gallina constants) for the run() result ladder, the two startup "
    "handlers, the final return and the exit statement of _runner.py; cross-checked by the correspondence on every case",
    "modelled, not verified: anyio.run, signal delivery (open_signal_receiver), cancel scopes and task groups, "
    "fail_after; the moment 'startup has completed' is observed through the 'Application started' log record",
    "teardown callbacks that raise, a second termination signal, and more than one cause of death during one startup "
    "are outside the model (the generator produces at most one)",
]

INTS = [0, 0, 1, 2, 5, 64, 127, 128, 255, 256, 1000, -1, -127, -128]


def gen_case(r):
    cli = r.random() < 0.5
    ids = {"cb": 0, "svc": 0}
    started_svcs = []

    def reg():
        me = ids["cb"]
        ids["cb"] += 1
        kids = []
        if r.random() < 0.2:
            for _ in range(r.choice([1, 1, 2])):
                kids.append([ids["cb"], r.random() < 0.6])
                ids["cb"] += 1
        return ["Reg", me, r.random() < 0.6, kids]

    def actions(n, where):
        out = []
        for _ in range(n):
            k = r.random()
            if k < 0.55:
                out.append(reg())
            elif k < 0.8:
                out.append(["Svc", ids["svc"]])
                where.append(ids["svc"])
                ids["svc"] += 1
            else:
                out.append(["Yield"])
        return out

    def node(depth, inherited):
        mine = list(inherited)
        spec = {"prepare": actions(r.choice([0, 1, 1, 2]), mine), "children": []}
        spec["_svcs_after_prepare"] = list(mine)
        if depth < 2:
            for _ in range(r.choice([0, 0, 1, 2, 3] if depth == 0 else [0, 0, 1, 2])):
                spec["children"].append(node(depth + 1, mine))
        spec["start"] = actions(r.choice([0, 1, 1, 2]), mine)
        return spec
    tree = node(0, [])
    # every component of the tree, with the service tasks certainly running when it acts
    comps = []

    def walk(s):
        comps.append(s)
        for c in s["children"]:
            walk(c)
    walk(tree)
    timeout = 30
    fault = None
    if r.random() < 0.4:
        c = r.choice(comps)
        phase = r.choice(["prepare", "start"])
        kind = r.choice(["Fail", "Fail", "Hang", "Sig", "Sig", "Crash", "Crash"])
        certain = c["_svcs_after_prepare"] if phase == "start" else []
        # (a service task started earlier in the same list is also certain, but keep it simple)
        pre = []
        if kind == "Crash" and not certain:
            pre = [["Svc", ids["svc"]]]            # start one right before
            certain = [ids["svc"]]
            ids["svc"] += 1
        if kind == "Fail":
            act = [r.choice(["Fail", "Fail", "FailBase"])]
        elif kind == "Hang":
            act = ["Hang"]
            timeout = 0.05
        elif kind == "Sig":
            act = ["Sig", r.choice(["INT", "TERM"])]
        else:
            act = ["Crash", r.choice(certain)]
        pos = r.randrange(len(c[phase]) + 1)
        c[phase][pos:pos] = pre + [act]
        if r.random() < 0.3:
            # another component, neither above nor below the faulty one, is busy meanwhile and its cleanup
            # fails when the startup is brought down
            def family(x):
                return [x] + [y for ch in x["children"] for y in family(ch)]
            related = {id(x) for x in family(c)} | {id(x) for x in comps if any(y is c for y in family(x))}
            others = [x for x in comps if id(x) not in related]
            if others:
                r.choice(others)["start"].append(["Linger"])
        fault = kind

    def strip(s):
        s.pop("_svcs_after_prepare", None)
        for c in s["children"]:
            strip(c)
    strip(tree)
    all_svcs = list(range(ids["svc"]))
    after = []
    scratch = []
    sig_used = fault == "Sig"
    for _ in range(r.choice([0, 0, 1, 2, 3])):
        k = r.random()
        if k < 0.5:
            after.append(reg())
        elif k < 0.7:
            after.append(["Svc", ids["svc"]])
            all_svcs.append(ids["svc"])
            ids["svc"] += 1
        elif k < 0.85 and cli and not sig_used:
            after += [["Sig", r.choice(["INT", "TERM"])], ["Wait"]]
            sig_used = True
        else:
            after.append(["Yield"])
    ending = []
    if cli:
        k = r.random()
        if k < 0.15 and all_svcs:
            after.append(["Crash", r.choice(all_svcs)])
            ending = ["Return", "none", 0]
        elif k < 0.3:
            ending = ["Raise", r.randrange(100)]
        else:
            kind = r.choice(["none", "int", "int", "int", "int", "bool", "str", "float", "obj"])
            ending = ["Return", kind, r.choice(INTS) if kind == "int" else r.choice([0, 1])]
    else:
        if r.random() < 0.3 and all_svcs:
            after.append(["Crash", r.choice(all_svcs)])
        else:
            after.append(["Sig", r.choice(["INT", "TERM"])])
    raisers = []
    if ids["cb"] and r.random() < 0.25:
        # some teardown callbacks raise when they are called: the others still run, and what they raised comes out
        raisers = sorted(r.sample(range(ids["cb"]), min(ids["cb"], r.choice([1, 1, 2]))))
    return {"cli": cli, "tree": tree, "after": after, "ending": ending, "timeout": timeout, "fault": fault,
            "raisers": raisers}


# ------------------------------------------------------------------ observations -> model terms
HIST = ("Reg", "Svc", "Fail", "Hang", "Sig", "Crash", "Started", "RunEnds")


def ev_term(o):
    k = o[0]
    if k == "Reg":
        kids = clist(f"({k_}%nat, {cbool(p)})" for k_, p in (o[3] if len(o) > 3 else []))
        return f"(Reg {o[1]} {cbool(o[2])} {kids})"
    if k in ("Svc", "Crash"):
        return f"({k} {o[1]})"
    if k in ("Fail", "Hang", "Sig", "Started"):
        return k
    if k == "RunEnds":
        if o[1] == "Raise":
            return f"(RunRaise {o[2]})"
        kind, v = o[2], o[3]
        if kind == "none":
            return "(RunReturn RNone)"
        if kind == "int":
            return f"(RunReturn (RInt ({v})))"
        if kind == "bool":
            return f"(RunReturn (RBool {cbool(bool(v))}))"
        return "(RunReturn ROther)"
    raise AssertionError(o)


def arg_term(a):
    if a == "noarg":
        return "ANoArg"
    if a == "none":
        return "ANone"
    if isinstance(a, dict):
        if "runerror" in a:
            return f"(AExc (XRun {a['runerror']}))"
        if "crash" in a:
            return f"(AExc (XCrash {a['crash']}))"
        if a.get("other") in ("CancelledError", "Cancelled"):
            return "ACancelled"
    return "(AExc (XRun 99999))"        # something the model never produces


def outcome_term(o):
    if "return" in o:
        return "OReturn"
    if "exit" in o:
        e = o["exit"]
        if e == "True":
            e = 1
        if isinstance(e, int):
            return f"(OExit ({e}))"
        return "(OExit (-99999))"
    x = o["raised"]
    lv = leaves(x)
    tds = [y["td"] for y in lv if isinstance(y, dict) and "td" in y]
    if tds:
        cr = [y["crash"] for y in lv if isinstance(y, dict) and "crash" in y]
        return f"(ORaisedTd {clist(f'{i}%nat' for i in tds)} {('(Some %d%%nat)' % cr[0]) if cr else 'None'})"
    if "crash" in x:
        return f"(ORaised (XCrash {x['crash']}))"
    if "runerror" in x:
        return f"(ORaised (XRun {x['runerror']}))"
    return "(ORaised (XRun 99999))"


def normalise(r):
    """a service task that is cancelled (by a crash elsewhere) between calling started() and the return of
    start_service_task() to its caller reports itself as aborted although it did become a service task"""
    if r.get("_norm"):
        return
    became = {o[1] for o in r["log"] if o[0] == "Svc"}
    r["log"] = [(["SvcCancelled", o[1]] if o[0] == "SvcAborted" and o[1] in became else o) for o in r["log"]]
    r["_norm"] = True


def split(r):
    normalise(r)
    hist = [o for o in r["log"] if o[0] in HIST]
    obs = [o for o in r["log"] if o[0] in ("Td", "SvcCancelled")]
    alive = []
    started = False
    for o in hist:
        if o[0] in ("Fail", "Hang", "Crash", "RunEnds") or (o[0] == "Sig" and (not started or not r["cli"])):
            break
        if o[0] == "Started":
            started = True
        alive.append(o)
    return hist, obs, alive


def case_term(r):
    hist, obs, alive = split(r)
    ot = clist((f"(Td {o[1]} {arg_term(o[2])})" if o[0] == "Td" else f"(SvcCancelled {o[1]})") for o in obs)
    return (f"(RC {cbool(r['cli'])} {clist(ev_term(o) for o in alive)} {clist(f"{i}%nat" for i in (r.get('raisers') or []))} "
            f"{clist(ev_term(o) for o in hist)} {ot} "
            f"{outcome_term(r['outcome'])})")


# ------------------------------------------------------------------ oracle: the property, restated
def leaves(x):
    if isinstance(x, dict) and "group" in x:
        return [y for g in x["group"] for y in leaves(g)]
    return [x]


def oracle(r):
    bad = []
    if r.get("outcome", {}).get("never_ended"):
        return [("C15:never-ended", "run_application() was still running 15 s after everything in the application's "
                 "script had happened (" + ("a CLI application whose run() " + ("returned" if any(o[0] == "RunEnds" for o in r["log"]) else "was never called") if r["cli"] else "a plain application") + ")")]
    normalise(r)
    log = r["log"]
    kinds = [o[0] for o in log]
    for k in ("SigIgnored", "CrashIgnored", "HangOver", "NeverStarted", "DriverGaveUp"):
        if k in kinds:
            what = {"SigIgnored": "a termination signal during startup did not stop the startup",
                    "CrashIgnored": "a crashing service task did not take the application down",
                    "HangOver": "the startup did not time out", "NeverStarted": "the application never reported being started",
                    "DriverGaveUp": "nothing ended the application (a termination signal after startup was ignored?)"}[k]
            bad.append((f"C15:{k}", what))
    regs = []            # in the order of registration: kids are registered when their parent runs
    expect = []
    for o in [o for o in log if o[0] == "Reg"][::-1]:
        expect += [o[1]] + [k for k, _ in (o[3] if len(o) > 3 else [])][::-1]
    for o in log:
        if o[0] == "Reg":
            regs.append(o[1])
    regs_all = regs + [k for o in log if o[0] == "Reg" for k, _ in (o[3] if len(o) > 3 else [])]
    tds = [o[1] for o in log if o[0] == "Td"]
    if sorted(tds) != sorted(regs_all):
        regs = regs_all
        missing = [i for i in regs if i not in tds]
        twice = sorted({i for i in tds if tds.count(i) > 1})
        bad.append(("C15:callbacks-not-once", f"registered {regs}, ran {tds} (never ran: {missing}, more than once: {twice}); "
                    f"outcome {r['outcome']}"))
    elif tds != expect:
        bad.append(("C15:callbacks-order", f"registered {regs} (callbacks registering callbacks: "
                    f"{[(o[1], o[3]) for o in log if o[0] == 'Reg' and len(o) > 3 and o[3]]}), ran in order {tds}, "
                    f"LIFO order is {expect}"))
    crashed_run = "Crash" in kinds
    if not crashed_run:
        # a callback that hands back an awaitable has finished only when that has been awaited, which happens
        # before the next callback is called (under the cancellation a crash brings, it is cut short instead)
        for i, o in enumerate(log):
            if o[0] == "Td" and o[1] % 3 == 2 and o[1] not in (r.get("raisers") or []):
                nxt = log[i + 1] if i + 1 < len(log) else None
                if nxt != ["TdDone", o[1]]:
                    bad.append(("C15:awaitable-not-awaited", f"teardown callback {o[1]} returned an awaitable that was not "
                                f"awaited before the teardown went on (next: {nxt})"))
    first_td = kinds.index("Td") if "Td" in kinds else len(kinds)
    if any(k in HIST for k in kinds[first_td:]):
        bad.append(("C15:teardown-early", f"the application's code was still acting after the teardown had begun: {kinds}"))
    crashes = [o[1] for o in log if o[0] == "Crash"]
    started = "Started" in kinds
    out = r["outcome"]
    svcs = [o[1] for o in log if o[0] == "Svc"]
    cancelled = [o[1] for o in log if o[0] == "SvcCancelled"]
    expect_cancelled = [s for s in svcs if s not in crashes]
    if sorted(cancelled) != sorted(expect_cancelled):
        bad.append(("C15:service-tasks", f"service tasks {svcs} (crashed {crashes}) but cancelled at teardown: {cancelled}"))
    raised_ids = [i for i in tds if i in set(r.get("raisers") or [])]
    if raised_ids:
        # teardown callbacks raised: run_application raises a group holding exactly what they raised, in the
        # order in which they ran, whatever the status would have been
        got = [x["td"] for x in leaves(out["raised"]) if isinstance(x, dict) and "td" in x] if "raised" in out else None
        if got != raised_ids:
            bad.append(("C15:teardown-errors-lost", f"teardown callbacks {raised_ids} raised; run_application ended with {out}"))
        return bad
    if crashes:
        if started and not ("raised" in out and {"crash": crashes[0]} in leaves(out["raised"])):
            bad.append(("C15:crash-outcome", f"service task {crashes[0]} crashed after startup; run_application ended with {out}"))
    elif not started:
        causes = [k for k in kinds if k in ("Fail", "Hang", "Sig")]
        if out != {"exit": 1}:
            bad.append(("C15:startup-outcome", f"startup ended by {causes or 'nothing'}; run_application ended with {out}, "
                        f"expected SystemExit(1)"))
    elif r["cli"]:
        ends = [o for o in log if o[0] == "RunEnds"]
        if ends:
            e = ends[0]
            if e[1] == "Raise":
                if not ("raised" in out and {"runerror": e[2]} in leaves(out["raised"])):
                    bad.append(("C15:run-raise-outcome", f"run() raised {e[2]}; run_application ended with {out}"))
                wrong = [o for o in log if o[0] == "Td" and o[2] not in ("noarg", {"runerror": e[2]})]
                if wrong:
                    bad.append(("C15:callback-argument", f"run() raised {e[2]} but a pass_exception callback got {wrong[0][2]}"))
            else:
                kind, v = e[2], e[3]
                if kind == "none":
                    want = {"return": "None"}
                elif kind in ("int", "bool"):
                    n = int(v)
                    want = ({"return": "None"} if n == 0 else {"exit": n}) if 0 <= n <= 127 else {"exit": 1}
                else:
                    want = {"exit": 1}
                got = dict(out)
                if got.get("exit") == "True":
                    got["exit"] = 1
                if got != want:
                    bad.append(("C15:exit-code", f"run() returned {kind} {v}; run_application ended with {out}, expected {want}"))
                wrong = [o for o in log if o[0] == "Td" and o[2] not in ("noarg", "none")]
                if wrong:
                    bad.append(("C15:callback-argument", f"run() returned but a pass_exception callback got {wrong[0][2]}"))
    else:
        if "Sig" in kinds and out != {"return": "None"}:
            bad.append(("C15:signal-outcome", f"a termination signal after startup of a plain application; "
                        f"run_application ended with {out}, expected a plain return"))
    return bad


def collect(ck, n):
    cases = []
    for i in range(n):
        c = gen_case(ck.rng("run", i))
        c["backend"] = "asyncio" if i % 2 == 0 else "trio"
        cases.append(c)
    chunk = max(1, (len(cases) + 15) // 16)
    chunks = [cases[i:i + chunk] for i in range(0, len(cases), chunk)]
    res = ck.run_impl("impl_run.py", [{"cases": c} for c in chunks], timeout=1500)
    out = []
    for c, rr in zip(chunks, res):
        if "error" in rr:
            ck.broke("impl-runner", rr)
            continue
        for case, r in zip(c, rr["results"]):
            if r.get("skipped"):
                continue
            r["timeout"] = case["timeout"]
            r["fault"] = case["fault"]
            out.append(r)
    # a scenario that is to hang past a 0.05 s startup timeout must get as far as hanging within those 0.05 s; on
    # a machine that stalls for that long it does not, which says nothing about asphalt: run those again with
    # more room
    again = [i for i, r in enumerate(out) if "crash" not in r and r.get("fault") == "Hang"
             and not any(o[0] in ("Hang", "Fail", "Sig", "Crash") for o in r["log"])]
    if again:
        redo = [dict({k: out[i].get(k) for k in ("backend", "cli", "tree", "after", "ending", "raisers")}, timeout=1.0) for i in again]
        rr = ck.run_impl("impl_run.py", [{"cases": redo}], timeout=600)[0]
        for i, r2 in zip(again, rr.get("results", [])):
            r2["timeout"], r2["fault"] = 1.0, "Hang"
            out[i] = r2
    crashed = [r for r in out if "crash" in r]
    if crashed:
        ck.runner_crash({k: crashed[0].get(k) for k in ("backend", "cli", "tree", "after", "ending")}, str(crashed[0]["crash"]))
    return [r for r in out if "crash" not in r]


def check_fixed(ck):
    """a service task whose cleanup raises while the root teardown cancels it: the exception comes out of
    run_application whatever the application was about to return, after the full teardown"""
    n = 0
    tree = {"prepare": [["Reg", 0, True, []]], "start": [["Svc", 0, "raise_on_cancel"], ["Reg", 1, False, []]],
            "children": [{"prepare": [["Reg", 3, True, []]], "start": [["Svc", 1], ["Reg", 4, False, []]], "children": []}]}
    for be in ("asyncio", "trio"):
        for cli, after, ending in ((True, [], ["Return", "none", 0]), (True, [], ["Return", "int", 3]),
                                   (False, [["Sig", "TERM"]], []), (False, [["Sig", "INT"]], [])):
            case = {"backend": be, "cli": cli, "tree": tree, "after": after, "ending": ending, "timeout": 30}
            r = ck.run_impl("impl_run.py", [{"cases": [case]}])[0]
            rr = r["results"][0] if "results" in r else {"crash": r}
            n += 1
            if "crash" in rr:
                ck.broke("impl-runner-crash", rr)
                continue
            out = rr["outcome"]
            tds = [o[1] for o in rr["log"] if o[0] == "Td"]
            if not ("raised" in out and {"crash": 0} in leaves(out["raised"])):
                ck.fail_input("C15:crash-at-teardown-vanished", f"service task 0 raised while the root teardown cancelled it; "
                              f"run_application ended with {out}", dict(replay_obj(dict(rr, timeout=30)), fixed="svc-raises-on-cancel"))
            elif tds != [1, 4, 3, 0]:
                ck.fail_input("C15:callbacks-order", f"registered [0, 3, 4, 1], ran {tds}",
                              dict(replay_obj(dict(rr, timeout=30)), fixed="svc-raises-on-cancel"))
    return n


def replay_obj(r):
    return {k: r.get(k) for k in ("backend", "cli", "tree", "after", "ending", "raisers", "timeout", "log", "outcome")}


def run(ck: Check):
    ck.trusted = TRUST
    ck.prove(extra_targets=["Corr/Check_run.v"])
    if not ck.tie["translation"]["Gen_exitcode"]["ok"]:
        ck.notes.append("translator rejected the current text of _runner.py: " +
                        ck.tie["translation"]["Gen_exitcode"]["reason"] +
                        " -- the model keeps the pinned numbers; the correspondence decides")
    results = collect(ck, ck.n(1280, 16000))
    for r in [r for r in results if r["outcome"].get("never_ended")][:1]:
        ck.fail_input("C15:never-ended", oracle(r)[0][1], replay_obj(r))
    results = [r for r in results if not r["outcome"].get("never_ended")]
    terms = [case_term(r) for r in results]
    bad = ck.coq_eval("run", HEADER, terms, "run_case", "check_run", shard=250)
    sigs, n_fail = {}, 0
    for r in results:
        for sig, what in oracle(r):
            n_fail += 1
            size = len(json.dumps(r["tree"])) + len(r["after"])
            if sig not in sigs or size < sigs[sig][0]:
                sigs[sig] = (size, r, what)
    for sig, (_, r, what) in sigs.items():
        ck.fail_input(sig, what, replay_obj(r))
    for i in bad[:10]:
        if not oracle(results[i]):
            ck.broke("correspondence", replay_obj(results[i]))
    nfixed = check_fixed(ck)
    ck.run_fixed({"rejected_add_registers_no_callback": "C15:callbacks-not-once",
                  "second_half_runs_at_the_outer_teardown": "C15:callbacks-not-once"})
    dist = {"cli": 0, "outcomes": {}, "startup_fault": {}, "run_result_kinds": {}, "callbacks": 0, "service_tasks": 0,
            "components": 0, "signal_after_startup_cli": 0}
    dist["runs_with_raising_callbacks"] = sum(1 for r in results if any(o[0] == "Td" and o[1] in (r.get("raisers") or []) for o in r["log"]))
    for r in results:
        dist["cli"] += r["cli"]
        o = r["outcome"]
        key = "return" if "return" in o else (f"exit {o['exit']}" if "exit" in o else "raised " + next(iter(o["raised"])))
        dist["outcomes"][key] = dist["outcomes"].get(key, 0) + 1
        dist["startup_fault"][str(r["fault"])] = dist["startup_fault"].get(str(r["fault"]), 0) + 1
        for e in r["log"]:
            if e[0] == "RunEnds":
                k = e[1] if e[1] == "Raise" else e[2]
                dist["run_result_kinds"][k] = dist["run_result_kinds"].get(k, 0) + 1
            dist["callbacks"] += e[0] == "Reg"
            dist["service_tasks"] += e[0] == "Svc"
        kinds = [e[0] for e in r["log"]]
        if r["cli"] and "Started" in kinds and "Sig" in kinds[kinds.index("Started"):]:
            dist["signal_after_startup_cli"] += 1
        dist["components"] += json.dumps(r["tree"]).count('"prepare"')
    distinct = {json.dumps([r["cli"], r["tree"], r["after"], r["ending"]]): sum(1 for e in r["log"] if e[0] == "Reg") >= 2
                for r in results}
    ck.coverage.update({
        "evaluations": len(results),
        "distinct_nontrivial": sum(1 for v in distinct.values() if v),
        "rule": "seeded applications run through the real run_application(): a tree of 1-10 components (depth <= 3) whose "
                "prepare()/start() register teardown callbacks on the root context (with and without pass_exception), "
                "start service tasks and yield; in 40% one component fails, hangs past the startup timeout, receives "
                "SIGINT/SIGTERM or makes a service task crash at a random point of its prepare()/start(); then an "
                "after-startup script (run() of a CLI root: registrations, service tasks, a signal, a crash, and a "
                "result among None / ints inside and outside 0-127 / bool / str / float / object / an exception; or a "
                "driver task of a plain application ending in a signal or a crash); asyncio and trio alternate. "
                "Compared with the model: the way run_application ended, the full teardown sequence (callbacks and "
                "service-task cancellations, with the argument each pass_exception callback got), and that the "
                "application was still running before its last act. distinct = by scenario; non-trivial = >= 2 callbacks",
        "samples": [{"cli": r["cli"], "log": r["log"], "outcome": r["outcome"]} for r in results[:2]],
        "traces_validated_against_impl": len(results) - len(bad),
        "mismatches": len(bad),
        "input_distribution": dist,
        "oracle_failures": n_fail,
        "fixed_scenarios": nfixed,
        "partial_clauses": ["teardown callbacks that raise during the runner's teardown, a second termination signal and "
                            "several causes of death in one startup are not modelled"],
    })
    if ck.tier == "thorough":
        ck.coqchk()


def replay(ck: Check, obj) -> int:
    rp = obj.get("replay") or obj["no_longer_checks"][0]["detail"]
    case = {k: rp.get(k) for k in ("backend", "cli", "tree", "after", "ending", "raisers")}
    case["timeout"] = rp.get("timeout", 30)
    r = ck.run_impl("impl_run.py", [{"cases": [case]}])[0]["results"][0]
    if "crash" in r:
        print(r["crash"])
        return 1
    print("log:", r["log"])
    print("outcome:", r["outcome"])
    if rp.get("fixed") == "svc-raises-on-cancel":
        ok = "raised" in r["outcome"] and {"crash": 0} in leaves(r["outcome"]["raised"]) \
            and [o[1] for o in r["log"] if o[0] == "Td"] == [1, 4, 3, 0]
        print("the service task's exception came out after the full teardown" if ok else
              "ORACLE: C15:crash-at-teardown-vanished (or teardown incomplete)")
        return 0 if ok else 1
    bad = oracle(r)
    for b in bad:
        print("ORACLE:", b[0], "-", b[1])
    if r["outcome"].get("never_ended"):
        return 1
    mism = ck.coq_eval("replay", HEADER, [case_term(r)], "run_case", "check_run")
    print("model/implementation correspondence:", "DISAGREE" if mism else "agree")
    return 1 if bad or mism else 0
