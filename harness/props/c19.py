"""C19 - @inject is equivalent to explicit lookups in the current context.
Model Ctx/InjectModel.v (an injected call = the same lookup steps of Ctx/ResModel.v), theorems
Props/C19.v, tie K: histories of context operations interleaved with generated @inject signatures
(source text, compiled) called inside entered contexts."""
from __future__ import annotations

import json

from harness import res_common as rc
from harness.core import Check, cbool, clist, cnat, cstr

HEADER = "From Asphalt Require Import Corr.Check_inj.\n"
TRUST = rc.RES_TRUST + [
    "modelled, not verified: Python's typing introspection (get_type_hints with string forward references incl. "
    "names local to the defining function, Optional / PEP 604 union detection), inspect.signature; the model starts "
    "from a resolved annotation kind per parameter",
]


def param_term(p):
    d = p["default"]
    dflt = d if isinstance(d, str) else f"(DDep {cstr(d[1])})"
    a = p["ann"]
    ann = a if isinstance(a, str) else f"({a[0]} {cnat(a[1])})"
    return f"(Param {p['kind']} {dflt} {ann})"


def obs_term(op, out):
    if op["op"] != "Inject":
        return f"(OPlain {rc.out_term(out)})"
    k = out["k"]
    if k == "Rejected":
        return "ORejected"
    if k == "Unchanged":
        return "OUnchanged" if out.get("warned") else "(OCall ITypeError)"
    r = out["r"]
    if r == "Body":
        if not out["passthrough_ok"]:
            return "(OCall (IRaised Conflict))"
        return "(OCall (IBody " + clist("NoneVal" if b is None else f"(Val {rc.val_term(b)})" for b in out["bound"]) + "))"
    if r == "TypeError":
        return "(OCall ITypeError)"
    if r == "Raised" and out["e"] in rc.ERRS:
        return f"(OCall (IRaised {out['e']}))"
    return "(OCall (IRaised ValueErr))"      # body ran then raised / anything odd: never what the model says


def op_term(op):
    if op["op"] != "Inject":
        return f"(Plain {rc.op_term(op)})"
    return (f"(Inject {op['c']} {clist(param_term(p) for p in op['model_sig'])} {cbool(op['spec']['coro'])} "
            f"{op['tok']})")


def case_term(result):
    return clist(f"({op_term(s['op'])}, {obs_term(s['op'], s['out'])})" for s in result["steps"])


def collect(ck, n_cases, n_ops):
    cases = [{"seed": f"{ck.seed}:inj:{ck.tier}:{i}", "n": n_ops, "backend": "asyncio" if i % 2 == 0 else "trio"}
             for i in range(n_cases)]
    chunk = max(1, (len(cases) + 15) // 16)
    chunks = [cases[i:i + chunk] for i in range(0, len(cases), chunk)]
    res = ck.run_impl("impl_inj.py", [{"cases": c} for c in chunks], timeout=900)
    out = []
    for c, r in zip(chunks, res):
        if "error" in r:
            ck.broke("impl-runner", r)
            continue
        out += r["results"]
    crashed = [r for r in out if "crash" in r]
    if crashed:
        ck.runner_crash({"backend": crashed[0].get("backend"), "case_seed": crashed[0].get("seed")}, crashed[0]["crash"])
    return [r for r in out if "crash" not in r]


# ------------------------------------------------------------------ oracle: the property, restated
def oracle(result):
    """An injected call must behave like explicit lookups: every bound object is what an explicit
    lookup of that (type, name) in the same context returns right afterwards; a missing non-optional
    resource raises ResourceNotFound before the body runs; the signature rules are enforced at
    decoration time."""
    bad = []
    steps = result["steps"]
    for i, s in enumerate(steps):
        op, out = s["op"], s["out"]
        if op["op"] != "Inject":
            continue
        sig = op["model_sig"]
        deps = [p for p in sig if not isinstance(p["default"], str)]
        offending = any((not isinstance(p["default"], str) and (p["kind"] == "PosOnly" or p["ann"] == "ANone"))
                        or p["default"] == "DMarkerFn" for p in sig)
        if offending:
            if out["k"] != "Rejected":
                bad.append(("C19:not-rejected", f"step {i}: a positional-only / unannotated / un-called resource marker "
                            f"was accepted: {out}"))
            continue
        if out["k"] == "Rejected":
            bad.append(("C19:valid-signature-rejected", f"step {i}: {op['spec']}"))
            continue
        if not deps:
            if out["k"] != "Unchanged":
                bad.append(("C19:no-deps", f"step {i}: no injectable parameter but {out}"))
            continue
        if out["k"] != "Call":
            bad.append(("C19:odd", f"step {i}: {out}"))
            continue
        if out["r"] == "Raised" and out["e"] not in ("NotFound", "AsyncErr", "RuntimeErr"):
            bad.append(("C19:unexpected-exception", f"step {i}: the injected call raised {out['e']}, which no explicit "
                        f"get_resource(_nowait) call can raise"))
        if out["r"] == "odd":
            bad.append(("C19:odd-call", f"step {i}: {out.get('detail')}"))
        if out["r"] == "body-ran-then-raised":
            bad.append(("C19:body-ran-before-failure", f"step {i}: the body ran although the call raised {out['e']}"))
        if out["r"] == "Body":
            if not out["passthrough_ok"]:
                bad.append(("C19:arguments-changed", f"step {i}: ordinary arguments did not pass through unchanged"))
            for t_, name_, v_ in out.get("explicit_found", []):
                bad.append(("C19:optional-lost", f"step {i}: an optional parameter ({t_},{name_!r}) received None but the "
                            f"explicit optional lookup in the same context, made at once, returns {v_}"))
            # compare with explicit lookups made later in the same context (C03: bindings are stable)
            for p, b in zip(deps, out["bound"]):
                if isinstance(p["ann"], str):
                    continue
                t, name = p["ann"][1], p["default"][1]
                for s2 in steps[i + 1:]:
                    o2, r2 = s2["op"], s2["out"]
                    if o2["op"] in ("GetNowait", "GetBegin") and o2["c"] == op["c"] and (o2["t"], o2["name"]) == (t, name) \
                            and r2["k"] == "Val" and b is not None and list(r2["v"]) != list(b):
                        bad.append(("C19:differs-from-explicit-lookup", f"step {i}: injected ({t},{name!r}) = {b}, an "
                                    f"explicit lookup later returned {r2['v']}"))
                if b is None and p["ann"][0] != "AOpt":
                    bad.append(("C19:none-for-required", f"step {i}: a non-optional parameter received None"))
                if b is None and p["ann"][0] == "AOpt":
                    # the explicit optional lookup would have found what the context holds right now
                    here = s.get("probe", [])[op["c"]] if op["c"] < len(s.get("probe", [])) else None
                    held = [v for tt, m in (here or {}).get("maps", []) if tt == t for n, v in m if n == name]
                    if held:
                        bad.append(("C19:optional-lost", f"step {i}: an optional parameter ({t},{name!r}) received None "
                                    f"although the context holds {held[0]}"))
    return bad


def run(ck: Check):
    ck.trusted = TRUST
    ck.prove(extra_targets=["Corr/Check_inj.v", "Ctx/InjectExamples.v"])
    results = collect(ck, ck.n(800, 15000), 26)
    terms = [case_term(r) for r in results]
    bad = ck.coq_eval("inj", HEADER, terms, "inj_case", "check_inj", shard=120)
    ck.run_fixed({"inject_across_short_lived_contexts": "C19:differs-from-explicit-lookup",
                  "overlapping_injected_calls": "C19:overlapping-calls-mixed-up",
                  "caller_names_injected_parameter": "C19:arguments-changed",
                  "optional_injection_is_the_optional_lookup": "C19:differs-from-explicit-lookup",
                  "wrapper_kind_decides_the_lookup": "C19:differs-from-explicit-lookup",
                  "injected_call_in_a_closed_context_is_the_explicit_call": "C19:differs-from-explicit-lookup",
                  "annotations_mean_what_they_say": "C19:differs-from-explicit-lookup",
                  "injected_lookups_happen_in_signature_order": "C19:differs-from-explicit-lookup",
                  "injected_coroutine_in_a_component_waits_like_the_explicit_lookup": "C19:differs-from-explicit-lookup"})
    sigs, n_fail = {}, 0
    for r in results:
        for sig, what in oracle(r):
            n_fail += 1
            sigs.setdefault(sig, (r, what))
    for sig, (r, what) in sigs.items():
        ck.fail_input(sig, what, {"backend": r["backend"], "seed": r["seed"],
                                  "ops": [s["op"] for s in r["steps"]], "outs": [s["out"] for s in r["steps"]]})
    for i in bad[:10]:
        if not oracle(results[i]):
            ck.broke("correspondence", {"seed": results[i]["seed"], "backend": results[i]["backend"],
                                        "ops": [s["op"] for s in results[i]["steps"]],
                                        "outs": [s["out"] for s in results[i]["steps"]]})
    dist = {"inject_outcomes": {}, "coro": 0, "sync": 0, "deps_per_call": {}, "bound_kinds": {}, "subtask": 0}
    ninj = 0
    for r in results:
        for s in r["steps"]:
            if s["op"]["op"] == "Inject":
                ninj += 1
                o = s["out"]
                k = o["k"] + (":" + o["r"] + (":" + o.get("e", "") if o["r"] == "Raised" else "") if o["k"] == "Call" else "")
                dist["inject_outcomes"][k] = dist["inject_outcomes"].get(k, 0) + 1
                dist["coro" if s["op"]["spec"]["coro"] else "sync"] += 1
                dist["subtask"] += bool(s["op"].get("subtask"))
                nd = sum(1 for p in s["op"]["model_sig"] if not isinstance(p["default"], str))
                dist["deps_per_call"][nd] = dist["deps_per_call"].get(nd, 0) + 1
                for b in o.get("bound", []) or []:
                    kk = "None" if b is None else b[0]
                    dist["bound_kinds"][kk] = dist["bound_kinds"].get(kk, 0) + 1
    distinct = {json.dumps([s["op"] for s in r["steps"]], sort_keys=True):
                any(s["op"]["op"] == "Inject" and s["out"].get("r") == "Body" for s in r["steps"]) for r in results}
    ck.coverage.update({
        "evaluations": len(results),
        "distinct_nontrivial": sum(1 for v in distinct.values() if v),
        "rule": "seeded histories of context operations (as for C02-C04, factories sync or async without suspension) "
                "with 30% of the steps defining and calling an @inject-decorated function generated as source text: "
                "positional-only / positional / *args / keyword-only / **kwargs parameters, 0-4 resource() markers with "
                "names, annotations T, Optional[T], T | None, Union[T, None], string forward references (also to names "
                "local to the defining function), invalid unions; malformed stream: positional-only, unannotated and "
                "un-called markers; sync and async functions; called in the context's own task or a task spawned from "
                "it. distinct = by op list; non-trivial = at least one injected call whose body ran",
        "samples": [{"backend": r["backend"], "steps": r["steps"][:8]} for r in results[:1]],
        "traces_validated_against_impl": len(results) - len(bad),
        "mismatches": len(bad),
        "injected_calls": ninj,
        "input_distribution": dist,
        "oracle_failures": n_fail,
        "partial_clauses": ["how annotations are resolved (typing.get_type_hints, union detection) is runtime "
                            "behaviour exercised on the implementation; the model starts from the resolved kind"],
    })
    if ck.tier == "thorough":
        ck.coqchk()


def replay(ck: Check, obj) -> int:
    rp = obj.get("replay") or obj["no_longer_checks"][0]["detail"]
    r = ck.run_impl("impl_inj.py", [{"cases": [{"ops": rp["ops"], "backend": rp["backend"], "seed": rp.get("seed")}]}])[0]
    rr = r["results"][0]
    for s in rr["steps"]:
        print(s["op"], "->", s["out"])
    bad = oracle(rr)
    for b in bad:
        print("ORACLE:", b[0], "-", b[1])
    mism = ck.coq_eval("replay", HEADER, [case_term(rr)], "inj_case", "check_inj")
    print("model/implementation correspondence:", "DISAGREE" if mism else "agree")
    return 1 if bad or mism else 0
