"""C06 - see properties.jsonl.  Model Conc/Startup.v (control skeleton Conc/Skeleton.v), theorems
Props/C06.v, tie K: generated component trees run with the real start_component under the lock-step
director (virtual time), compared with the model at every step."""
from harness import start_common as sc

MODES = {"05": ["nowait", "mixed", "mixed", "cyclic"], "06": ["mixed", "mixed", "missing", "cyclic", "mixed"],
         "07": ["fail", "fail", "mixed", "missing", "cyclic"]}["06"]
ORACLE = {"05": sc.oracle_C05, "06": sc.oracle_C06_full, "07": sc.oracle_C07}["06"]


def run(ck):
    sc.run_property(ck, ORACLE, MODES)
    ck.run_fixed({"waiting_component_gets_the_async_factorys_product": "C06:wait-failed",
                  "nested_tree_publications_release_waiters": "C06:wait-failed",
                  "partly_shadowed_factory_releases_its_waiter": "C06:stuck-although-published",
                  "factory_for_an_iterable_class_releases_its_waiter": "C06:stuck-although-published",
                  "factories_waiting_on_each_other_complete": "C06:wait-failed"})


def replay(ck, obj):
    return sc.replay_generic(ck, obj, ORACLE)
