"""C14 - Component configuration is a layered deep merge that fully determines the tree.
Model Config/CompCfg.v (merge = C17's specification), theorems Props/C14.v, tie K: generated class
tables with hard-coded add_component() calls x external configurations x the three ways of naming
a type, started with the real start_component; constructor kwargs, class, resource names,
configuration before/after and a second start of the same object compared inside Coq."""
from __future__ import annotations

import copy
import json

from harness import trees
from harness.core import COMMON_TRUST, Check, cbool, clist, cnat, cstr
from harness.props.c17 import spec_merge

HEADER = "From Asphalt Require Import Corr.Check_comp.\n"
TRUST = COMMON_TRUST + [
    "modelled, not verified: the import system and entry points (importlib.metadata; the harness publishes real "
    "entry points through a dist-info directory), resolve_reference; the model's resolver is a table over 6 classes "
    "x 3 spellings. Component constructors accept **kwargs and record them.",
    "the clause 'start_component leaves the configuration object unmodified' is about object mutation: it is "
    "checked on the implementation (deep copy before/after, second start of the same object); the pure model "
    "cannot express it",
]
N = 6
KEYS = ["a", "b", "opts", "k_1"]


def spell(r, k):
    return r.choice([{"cls": k}, f"comp{k}", f"verifpkg.mods:Comp{k}"])


def gen_kwargs(r, depth=1):
    d = trees.gen_dict(r, depth, 3, KEYS)
    d.pop("type", None)
    d.pop("components", None)
    return d


def gen_alias(r, k, used):
    for _ in range(10):
        base = r.choice([f"comp{k}", f"comp{k}", f"verifpkg.mods:Comp{k}", r.choice(["db", "web", "x1"])])
        alias = base + ("/" + r.choice(["main", "second", "n_2"]) if r.random() < 0.4 else "")
        if alias not in used:
            used.add(alias)
            return alias
    alias = f"u{len(used)}"
    used.add(alias)
    return alias


def gen_table(r):
    """class k may only hard-code children of classes > k: trees are finite"""
    table = {}
    for k in range(N):
        kids, used = [], set()
        if k < N - 1:
            for _ in range(r.choice([0, 0, 1, 1, 2])):
                ck = r.randrange(k + 1, N)
                alias = gen_alias(r, ck, used)
                t = None if alias.split("/")[0] in (f"comp{ck}", f"verifpkg.mods:Comp{ck}") and r.random() < 0.5 else spell(r, ck)
                kids.append([alias, {"type": t, "kwargs": gen_kwargs(r)}])
        table[str(k)] = kids
    return table


def hard_children(table, k):
    return {alias: {"type": (spec["type"] if spec["type"] is not None else alias), **spec["kwargs"]}
            for alias, spec in table[str(k)]}


def gen_ext(r, table, k, depth):
    """external `components` section for an instance of class k"""
    ext = {}
    hard = hard_children(table, k)
    for alias, hc in hard.items():
        x = r.random()
        if x < 0.35:
            continue
        if x < 0.42:
            ext[alias] = None
            continue
        if x < 0.45:
            ext[alias] = r.choice([5, "text", [1]])          # malformed
            continue
        c = trees.mutate_like(r, {kk: v for kk, v in hc.items() if kk != "type"}, 2, KEYS)
        c.pop("type", None)
        c.pop("components", None)
        if r.random() < 0.2:
            ck = r.randrange(N)
            c["type"] = spell(r, ck)                          # the external configuration re-types the child
        ck = class_of_type(c.get("type", hc["type"]), alias)
        if ck is not None and depth < 3 and r.random() < 0.5:
            sub = gen_ext(r, table, ck, depth + 1)
            if sub or r.random() < 0.2:
                c["components"] = sub if r.random() > 0.05 else None
        ext[alias] = c
    used = set(hard)
    if depth < 3:
        for _ in range(r.choice([0, 0, 1, 2])):               # components that exist only in the configuration
            ck = r.randrange(min(k + 1, N - 1), N)
            alias = gen_alias(r, ck, used)
            c = gen_kwargs(r)
            if alias.split("/")[0] not in (f"comp{ck}", f"verifpkg.mods:Comp{ck}") or r.random() < 0.5:
                c["type"] = spell(r, ck) if r.random() > 0.06 else r.choice(["nope", "notcomp", "verifpkg.mods:Missing", 7])
            elif r.random() < 0.15:
                c = None
            if c is not None and r.random() < 0.4 and ck < N - 1:
                sub = gen_ext(r, table, ck, depth + 1)
                if sub:
                    c["components"] = sub
            ext[alias] = c
    return ext


def class_of_type(t, alias):
    if isinstance(t, dict) and set(t) == {"cls"}:
        return t["cls"]
    if isinstance(t, str):
        t = t.split("/")[0]
        for k in range(N):
            if t in (f"comp{k}", f"verifpkg.mods:Comp{k}"):
                return k
    return None


def gen_case(r):
    table = gen_table(r)
    k = r.randrange(0, 3)
    cfg = gen_kwargs(r)
    ext = gen_ext(r, table, k, 0)
    if ext or r.random() < 0.3:
        cfg["components"] = ext
    if r.random() < 0.05:
        cfg = None
    root_type = spell(r, k) if r.random() > 0.04 else r.choice(["nope", 7, "notcomp"])
    return {"table": table, "type": root_type, "cfg": cfg}


# ------------------------------------------------------------------ oracle: the property, restated
def expected_tree(table, type_, cfg, alias_default="default"):
    """returns list of nodes in creation order or raises ValueError"""
    cfg = dict(cfg or {})
    ext = cfg.pop("components", {}) or {}
    t = cfg.pop("type", type_)
    k = class_of_type(t, None)
    if k is None:
        raise ValueError("bad type")
    if not isinstance(ext, dict):
        raise ValueError("components not a mapping")
    nodes = [{"cls": k, "kwargs": cfg, "dn": alias_default}]
    merged = spec_merge(hard_children(table, k), ext)
    for alias, c in merged.items():
        if c is None:
            c = {}
        if not isinstance(c, dict):
            raise ValueError("bad child config")
        c = dict(c)
        c.setdefault("type", alias)
        if isinstance(c["type"], str) and "/" in c["type"]:
            c["type"] = c["type"].split("/")[0]
        dn = alias.split("/", 1)[1] if "/" in alias else "default"
        nodes += expected_tree(table, None, c, dn)
    return nodes


def oracle(case, ob):
    bad = []
    if ob["k"] == "crash":
        return [("C14:harness", ob["detail"][:300])]
    try:
        exp = expected_tree(case["table"], case["type"], case["cfg"])
    except ValueError:
        exp = None
    if exp is None:
        if ob["k"] == "tree":
            bad.append(("C14:invalid-config-accepted", "an invalid configuration produced a component tree"))
        return bad
    if ob["k"] != "tree":
        return [("C14:valid-config-rejected", f"valid configuration failed: {ob.get('e')} {ob.get('detail', '')}")]
    got = ob["nodes"]
    if [n["cls"] for n in got] != [n["cls"] for n in exp]:
        bad.append(("C14:tree-shape", f"components created (classes, in order) {[n['cls'] for n in got]}, the "
                    f"configuration determines {[n['cls'] for n in exp]}"))
        return bad
    for i, (g, e) in enumerate(zip(got, exp)):
        if trees.canon(g["kwargs"]) != trees.canon(e["kwargs"]):
            bad.append(("C14:kwargs", f"component #{i} (class {g['cls']}) was constructed with {g['kwargs']}, the "
                        f"layered merge gives {e['kwargs']}"))
        if g["prep"] != "default":
            bad.append(("C14:remap-in-prepare", f"component #{i}: resource added in prepare() with the default "
                        f"name appears as {g['prep']!r}"))
        if g["start"] != e["dn"] or g["factory"] != e["dn"]:
            bad.append(("C14:remap", f"component #{i}: default-named resource/factory added in start() appear as "
                        f"{g['start']!r}/{g['factory']!r}, the alias gives {e['dn']!r}"))
        if g["explicit"] != "given":
            bad.append(("C14:remap-explicit", f"component #{i}: explicitly named resource appears as {g['explicit']!r}"))
    if trees.canon(ob["cfg_after"]) != trees.canon(case["cfg"]):
        bad.append(("C14:config-modified", f"start_component changed its configuration argument: {case['cfg']} -> "
                    f"{ob['cfg_after']}"))
    if not ob["second_same"]:
        bad.append(("C14:not-reusable", f"starting the same configuration object a second time gave "
                    f"{str(ob.get('second'))[:300]}"))
    return bad


# ------------------------------------------------------------------ printing
def cfg_tree(x):
    """JSON config -> tree term; class markers become the opaque leaf of that class"""
    if isinstance(x, dict):
        if set(x) == {"cls"}:
            return f"(class_obj {x['cls']})"
        return "(TDict " + clist(f"({cstr(k)}, {cfg_tree(v)})" for k, v in x.items()) + ")"
    return trees.tree_term(x)


def cfg_dict(d):
    return clist(f"({cstr(k)}, {cfg_tree(v)})" for k, v in d.items())


def table_term(table):
    rows = []
    for k, kids in table.items():
        d = {alias: {"type": (spec["type"] if spec["type"] is not None else alias), **spec["kwargs"]}
             for alias, spec in kids}
        rows.append(f"({k}, {cfg_dict(d)})")
    return clist(rows)


def obs_term(ob):
    if ob["k"] == "tree":
        return "(COk " + clist(
            f"(Seen {n['cls']} {cfg_dict(n['kwargs'])} {cstr(n['prep'])} {cstr(n['start'])} {cstr(n['explicit'])} "
            f"{cstr(n['factory'])})" for n in ob["nodes"]) + ")"
    return f"(CFail {ob.get('e', 'ECrashed')})"


def case_term(case, ob):
    after = ob.get("cfg_after")
    return (f"(CPC {table_term(case['table'])} {cfg_tree(case['type'])} "
            f"{'None' if case['cfg'] is None else '(Some ' + cfg_dict(case['cfg']) + ')'} {obs_term(ob)} "
            f"{'None' if after is None else '(Some ' + cfg_dict(after) + ')'} {cbool(ob.get('second_same', True))})")


def run_cases(ck, cases):
    payloads = [dict(c, backend="asyncio" if i % 2 == 0 else "trio") for i, c in enumerate(cases)]
    chunk = max(1, (len(payloads) + 15) // 16)
    chunks = [payloads[i:i + chunk] for i in range(0, len(payloads), chunk)]
    res = ck.run_impl("impl_comp.py", [{"cases": c} for c in chunks], timeout=900)
    obs = []
    for c, r in zip(chunks, res):
        if "error" in r:
            ck.broke("impl-runner", r)
            obs += [{"k": "crash", "detail": "runner failed"}] * len(c)
        else:
            obs += r["obs"]
    return obs


FIXED = [
    # F6: a child that exists only in the external configuration; the object must be reusable
    {"table": {str(k): [] for k in range(N)}, "type": {"cls": 0},
     "cfg": {"components": {"c": {"type": {"cls": 3}, "foo": 1, "components": {"comp4/x": {"n": 1}}}}}},
    # precedence: external configuration overrides hard-coded keyword arguments, deep
    {"table": {**{str(k): [] for k in range(N)},
               "0": [["comp2/main", {"type": None, "kwargs": {"a": 1, "opts": {"x": 1, "y": {"z": 1}}}}]]},
     "type": "comp0", "cfg": {"top": 1, "components": {"comp2/main": {"a": 2, "opts": {"y": {"z": 2, "w": 3}}}}}},
]


def run(ck: Check):
    ck.trusted = TRUST
    ck.prove(extra_targets=["Corr/Check_comp.v", "Config/CompCfgExamples.v"])
    cases = list(FIXED) + [gen_case(ck.rng("case", i)) for i in range(ck.n(1000, 20000))]
    obs = run_cases(ck, cases)
    terms = [case_term(c, o) for c, o in zip(cases, obs)]
    bad = ck.coq_eval("comp", HEADER, terms, "comp_case", "check_comp", shard=150)
    ck.run_fixed({"hard_coded_kwargs_reach_the_child_as_they_are": "C14:kwargs"})
    ck.run_fixed({"tree_started_inside_a_component": "C14:remap",
                  "default_name_is_remapped_only_while_starting": "C14:remap",
                  "overridden_default_types_need_not_exist": "C14:tree"})
    seen, n_fail = {}, 0
    for c, o in zip(cases, obs):
        for sig, what in oracle(c, o):
            n_fail += 1
            size = len(json.dumps(c))
            if sig not in seen or size < seen[sig][0]:
                seen[sig] = (size, c, o, what)
    for sig, (_, c, o, what) in seen.items():
        ck.fail_input(sig, what, {"case": c, "observed": o})
    for i in bad[:10]:
        if not oracle(cases[i], obs[i]):
            ck.broke("correspondence", {"case": cases[i], "observed": obs[i]})
    dist = {"outcomes": {}, "nodes": {}, "config_only_children": 0, "overridden_children": 0, "slash_aliases": 0}
    for c, o in zip(cases, obs):
        k = o["k"] if o["k"] != "err" else o["e"]
        dist["outcomes"][k] = dist["outcomes"].get(k, 0) + 1
        if o["k"] == "tree":
            n = len(o["nodes"])
            dist["nodes"][n] = dist["nodes"].get(n, 0) + 1
            dist["slash_aliases"] += sum(1 for x in o["nodes"] if x["start"] != "default")
        ext = (c["cfg"] or {}).get("components") or {}
        if isinstance(ext, dict) and isinstance(c["type"], (dict, str)):
            k0 = class_of_type(c["type"], None)
            if k0 is not None:
                hard = hard_children(c["table"], k0)
                dist["config_only_children"] += sum(1 for a in ext if a not in hard)
                dist["overridden_children"] += sum(1 for a in ext if a in hard)
    distinct = {json.dumps(c, sort_keys=True): (o["k"] == "tree" and len(o["nodes"]) >= 3) for c, o in zip(cases, obs)}
    ck.coverage.update({
        "evaluations": len(cases),
        "distinct_nontrivial": sum(1 for v in distinct.values() if v),
        "rule": "seeded class tables (6 component classes, class k hard-codes 0-2 add_component() calls to classes > k "
                "with nested keyword arguments, aliases with and without '/name', type given as class / entry point "
                "name / module:attr reference / omitted) x external configurations (override, extend, re-type, None "
                "and malformed children, children that exist only in the configuration, nested `components` up to "
                "depth 3, unknown and non-component types) started with start_component on asyncio/trio; every "
                "component adds default-named resources in prepare() and start(), an explicitly named one and a "
                "factory. distinct = by case; non-trivial = a tree of >= 3 components",
        "samples": [{"case": c, "observed": {k: v for k, v in o.items() if k != 'second'}} for c, o in list(zip(cases, obs))[2:4]],
        "traces_validated_against_impl": len(cases) - len(bad),
        "mismatches": len(bad),
        "input_distribution": dist,
        "oracle_failures": n_fail,
        "partial_clauses": ["'leaves the configuration object unmodified' and the second start of the same object "
                            "are observed on the implementation; import-system / entry-point resolution is library "
                            "behaviour exercised through real entry points"],
    })
    if ck.tier == "thorough":
        ck.coqchk()


def replay(ck: Check, obj) -> int:
    rp = obj.get("replay") or obj["no_longer_checks"][0]["detail"]
    case = rp["case"]
    ob = run_cases(ck, [case])[0]
    print("observed:", json.dumps(ob)[:3000])
    bad = oracle(case, ob)
    for b in bad:
        print("ORACLE:", b[0], "-", b[1])
    mism = ck.coq_eval("replay", HEADER, [case_term(case, ob)], "comp_case", "check_comp")
    print("model/implementation correspondence:", "DISAGREE" if mism else "agree")
    return 1 if bad or mism else 0
