"""C16 - asphalt run: documented config precedence and deterministic service selection.
Model Config/CliModel.v, theorems Props/C16.v (Config/CliProofs.v + the merge laws of C17), tie K:
the real command line driven through click's CliRunner on generated YAML files / --set / --service /
ASPHALT_SERVICE, with run_application intercepted where the command calls it."""
from __future__ import annotations

import copy
import json
import re

import yaml

from harness import trees
from harness.core import COMMON_TRUST, Check, clist, cstr
from harness.props.c17 import spec_merge

HEADER = "From Asphalt Require Import Corr.Check_cli.\n"
TRUST = COMMON_TRUST + [
    "modelled, not verified: PyYAML (file parsing, the typing of --set values, the !Env/!TextFile/!BinaryFile "
    "constructors: the model starts from parsed values, tags are exercised on fixed cases only), click's option "
    "parsing and error reporting, os.getenv",
    "the interception point: the module attribute asphalt.core._cli.run_application is replaced by a recorder",
]

KEYS = ["a", "b", "log", "x.y", "k_1", "a.b.c", "10.0.0.1", "w.", ".z"]
SERVICE_NAMES = ["default", "web", "worker", "a.b"]


def gen_small(r, depth):
    return trees.gen_dict(r, depth, 3, KEYS)


def gen_component(r, with_type=True):
    c = gen_small(r, 1)
    if with_type:
        c["type"] = r.choice(["pkg.mod:Root", "other:Thing", 5])
    if r.random() < 0.3:
        c["components"] = {"child": {"type": "pkg:Child", "n": r.randrange(5)}}
    return c


def gen_case(r):
    top = gen_small(r, 2)
    for k in ("component", "services"):
        top.pop(k, None)
    if r.random() < 0.5:
        top["backend"] = r.choice(["asyncio", "trio"])
    if r.random() < 0.3:
        top["backend_options"] = {"debug": r.random() < 0.5}
    if r.random() < 0.4:
        top["logging"] = {"version": 1, "root": {"level": r.choice(["INFO", "DEBUG"])}}
    if r.random() < 0.3:
        top["max_threads"] = r.randrange(1, 9)
    layout = r.choice(["none", "bad-type", "empty"]) if r.random() < 0.1 else \
        r.choice(["one", "several", "several+default", "component-only", "component+services", "component+default"])
    names = []
    if layout in ("one",):
        names = [r.choice(SERVICE_NAMES)]
    elif layout in ("several", "component+services"):
        names = r.sample([n for n in SERVICE_NAMES if n != "default"], 2)
    elif layout in ("several+default", "component+default"):
        names = ["default"] + r.sample([n for n in SERVICE_NAMES if n != "default"], r.choice([1, 2]))
        r.shuffle(names)
    if layout.startswith("component"):
        top["component"] = gen_component(r) if r.random() > 0.06 else r.choice(["notadict", None])
    if names:
        svcs = {}
        for n in names:
            k = r.random()
            if k < 0.05:
                svcs[n] = None
            elif k < 0.08:
                svcs[n] = 7
            else:
                s = gen_small(r, 1)
                if r.random() < 0.9:
                    s["component"] = gen_component(r, with_type=r.random() < 0.93)
                if r.random() < 0.3:
                    s["backend"] = "trio"
                if r.random() < 0.3 and "logging" in top:
                    s["logging"] = {"root": {"level": "WARNING"}, "extra": 1}
                svcs[n] = s
        top["services"] = svcs
    if layout == "bad-type":
        top["services"] = r.choice([["web"], "web", None, 3])
    if layout == "empty":
        top["services"] = {}
    # spread the configuration over 1-3 files with overlaps
    nfiles = r.choice([1, 1, 2, 3])
    files = [copy.deepcopy(top)]
    for _ in range(nfiles - 1):
        base = files[-1]
        earlier = trees.mutate_like(r, base, 2, KEYS)     # an earlier file the later one overrides / extends
        for k in list(base):
            if r.random() < 0.3 and k not in ("services", "component"):
                earlier.setdefault(k, base[k] if r.random() < 0.5 else trees.gen_leaf(r))
        if "services" in base and isinstance(base["services"], dict) and r.random() < 0.5:
            earlier["services"] = {n: ({"component": {"early": True, "type": "early:Type"}} if r.random() < 0.7 else
                                       {"only_early": 1}) for n in list(base["services"])[:2]}
        files.insert(0, earlier)
    # overrides
    overrides = []
    for _ in range(r.choice([0, 0, 1, 2, 3])):
        overrides.append(gen_override(r, files))
    if r.random() < 0.15:
        # overrides are applied one after the other to the configuration as it is THEN: a section is set below,
        # replaced as a whole, and set below again
        first = gen_override(r, files)
        if "key" in first and first["key"]:
            base = first["key"]
            whole = r.choice([({"m": 1}, "{m: 1}"), ({}, "{}"), ("txt", "txt"), (None, "null"), ({"k": {"n": 2}}, "{k: {n: 2}}")])
            if r.random() < 0.5:
                overrides += [{"key": base + ".x", "value": 1, "text": "1"},
                              {"key": base, "value": whole[0], "text": whole[1]},
                              {"key": base + ".y", "value": 2, "text": "2"}]
            else:
                # ... or the same key given twice with a key below it in between: each at its own position
                overrides += [{"key": base, "value": {"x": 1}, "text": "{x: 1}"},
                              {"key": base + ".y", "value": 2, "text": "2"},
                              {"key": base, "value": whole[0], "text": whole[1]}]
    # a mapping reachable under two keys of one file (YAML anchor + alias, as in the user guide)
    share = []
    if r.random() < 0.25:
        i = r.randrange(len(files))
        cands = [k for k, v in files[i].items() if isinstance(v, dict) and v and k not in ("services", "component")]
        if cands:
            # --set writes into the loaded mapping in place, and a YAML alias IS the same mapping: an override
            # that passes through an aliased mapping is outside what the tree model can say
            touched = {re.split(r"(?<!\\)\.", o.get("key") or "")[0].replace("\\.", ".") for o in overrides}
            cands = [k for k in cands if k not in touched and ("also_" + k) not in touched]
        if cands:
            src = r.choice(cands)
            dst = "also_" + src
            files[i][dst] = copy.deepcopy(files[i][src])
            share.append([i, src, dst])
    k = r.random()
    flag = None if k < 0.45 else (r.choice(names) if names and k < 0.85 else r.choice(SERVICE_NAMES + ["nope", ""]))
    k = r.random()
    env = None if k < 0.55 else (r.choice(names) if names and k < 0.85 else r.choice(SERVICE_NAMES + ["nope", ""]))
    return {"files": files, "overrides": overrides, "flag": flag, "env": env,
            "flag_opt": r.choice(["-s", "--service"]), "layout": layout, "share": share}


def paths_of(d, prefix=()):
    for k, v in d.items():
        yield prefix + (k,), v
        if isinstance(v, dict):
            yield from paths_of(v, prefix + (k,))


# texts Python's int()/float() read differently from YAML (1.1, as PyYAML implements it): octal, strings, hex, ...
NUMBER_LIKE = ["0644", "089", "1e5", "inf", "0x1F", "1_000", "+7", "infinity", "0o17", "1e3", "007", "-0", "1__0"]


def gen_override(r, files):
    merged = {}
    for f in files:
        merged = spec_merge(merged, f)
    ps = list(paths_of(merged))
    k = r.random()
    if k < 0.03:
        return {"raw": r.choice(["novalue", "a.b", ""])}          # no '='
    dict_paths = [p for p, v in ps if isinstance(v, dict)]
    if ps and k < 0.45:
        path = list(r.choice(ps)[0])                               # replace an existing value
    elif k < 0.8:
        path = list(r.choice(dict_paths)) if dict_paths and r.random() < 0.8 else []
        path += [r.choice(KEYS) for _ in range(r.choice([1, 1, 2]))]   # new keys below an existing mapping
    elif ps and k < 0.88:
        path = list(r.choice(ps)[0]) + [r.choice(KEYS)]            # below an existing value (error if a scalar)
    else:
        path = [r.choice(KEYS + ["services", "component"]) for _ in range(r.choice([1, 2, 3]))]
    value = r.choice([1, True, None, "txt", "a=b", [1, 2], {"m": 1}, {"type": "set:Type"}, "", 0, "x.y"])
    text = yaml.safe_dump(value, default_flow_style=True).strip()
    if text.endswith("\n..."):
        text = text[:-4].strip()
    if text.endswith("..."):
        text = text[:-3].strip()
    if yaml.safe_load(text) != value or type(yaml.safe_load(text)) is not type(value):
        value, text = "plain", "plain"
    if r.random() < 0.15:
        # the text after `=` is YAML, whatever else it may look like: what it means is what it would mean in a file
        text = r.choice(NUMBER_LIKE)
        value = yaml.safe_load(text)
    key = ".".join(p.replace(".", "\\.") for p in path) if r.random() > 0.15 else ".".join(path)
    return {"key": key, "value": value, "text": text}


# ------------------------------------------------------------------ oracle: the property, restated
def split_key_doc(key):
    """dots separate keys unless escaped with a backslash"""
    return [p.replace("\\.", ".") for p in re.split(r"(?<!\\)\.", key)]


def oracle_expect(case):
    cfg = {}
    for f in case["files"]:
        cfg = spec_merge(cfg, f)
    cfg = copy.deepcopy(cfg)
    for o in case["overrides"]:
        if "raw" in o:
            return ("err", None)
        sec = cfg
        ks = split_key_doc(o["key"])
        for k in ks[:-1]:
            sec = sec.setdefault(k, {})
            if not isinstance(sec, dict):
                return ("err", None)
        sec[ks[-1]] = copy.deepcopy(o["value"])
    services = cfg.pop("services", {})
    if not isinstance(services, dict):
        return ("err", None)
    if "component" in cfg:
        comp = cfg.pop("component")
        services.setdefault("default", {"component": comp})
    want = case["flag"] or case["env"] or None
    if not services:
        return ("err", None)
    if want:
        if want not in services:
            return ("err", None)
        svc = services[want]
    elif len(services) == 1:
        svc = next(iter(services.values()))
    elif "default" in services:
        svc = services["default"]
    else:
        return ("err", None)
    if svc is not None and not isinstance(svc, dict):
        return ("err", None)
    final = spec_merge(cfg, svc)
    comp = final.pop("component", None)
    if not isinstance(comp, dict) or "type" not in comp:
        return ("err", None)
    comp = dict(comp)
    t = comp.pop("type")
    backend = final.pop("backend", "asyncio")
    bo = final.pop("backend_options", {})
    return ("launch", {"type": t, "cfg": comp, "options": final, "backend": backend, "backend_options": bo})


def oracle(case, ob):
    kind, exp = oracle_expect(case)
    if ob["k"] == "crash":
        return [("C16:harness", ob["detail"])]
    if kind == "err":
        if ob["k"] == "launch":
            return [("C16:started-despite-error", f"the configuration is invalid / no service can be selected, yet "
                     f"run_application was called with {ob['type']}")]
        return []
    if ob["k"] != "launch":
        return [("C16:spurious-error", f"valid command line failed with {ob.get('e')} {ob.get('detail', '')}")]
    got = {"type": ob["type"], "cfg": ob["cfg"], "options": {k: v for k, v in ob["kwargs"].items()
                                                              if k not in ("backend", "backend_options")},
           "backend": ob["kwargs"].get("backend"), "backend_options": ob["kwargs"].get("backend_options")}
    bad = []
    for f in ("type", "cfg", "options", "backend", "backend_options"):
        if trees.canon(got[f]) != trees.canon(exp[f]) or strict(got[f]) != strict(exp[f]):
            bad.append((f"C16:wrong-{f}", f"{f} handed to run_application is {got[f]!r}, the documented precedence "
                        f"gives {exp[f]!r}"))
    return bad


def strict(x):
    """type-strict canonical form (1 vs True)"""
    if isinstance(x, dict):
        return {k: strict(v) for k, v in sorted(x.items())}
    if isinstance(x, list):
        return [strict(v) for v in x]
    return (type(x).__name__, x)


# ------------------------------------------------------------------ printing / running
def ostr(s):
    return "None" if s is None else f"(Some {cstr(s)})"


def override_term(o):
    if "raw" in o:
        return "(None, TNone)"
    return f"(Some {cstr(o['key'])}, {trees.tree_term(o['value'])})"


def launch_term(ob):
    if ob["k"] == "launch":
        kw = dict(ob["kwargs"])
        backend = kw.pop("backend", None)
        bo = kw.pop("backend_options", None)
        cfg = ob["cfg"] if isinstance(ob["cfg"], dict) else {"__not_a_dict__": 1}
        return (f"(Ok (Launch {trees.tree_term(ob['type'])} {trees.dict_term(cfg)} {trees.dict_term(kw)} "
                f"{trees.tree_term(backend)} {trees.tree_term(bo)}))")
    return f"(Fail {ob.get('e', 'ECrash')})"


def case_term(case, ob):
    return (f"(CC {clist(trees.dict_term(f) for f in case['files'])} "
            f"{clist(override_term(o) for o in case['overrides'])} {ostr(case['flag'])} {ostr(case['env'])} "
            f"{launch_term(ob)})")


def impl_payload(case):
    args = []
    for o in case["overrides"]:
        args += ["--set", o["raw"] if "raw" in o else f"{o['key']}={o['text']}"]
    if case["flag"] is not None:
        args += [case["flag_opt"], case["flag"]]
    files = copy.deepcopy(case["files"])
    for i, src, dst in case.get("share", []):
        files[i][dst] = files[i][src]          # one mapping under two keys: PyYAML writes an anchor and an alias
    return {"files": [yaml.safe_dump(f, sort_keys=False) for f in files], "args": args, "env": case["env"]}


def run_cases(ck, cases):
    payloads = [impl_payload(c) for c in cases]
    chunk = max(1, (len(payloads) + 15) // 16)
    chunks = [payloads[i:i + chunk] for i in range(0, len(payloads), chunk)]
    res = ck.run_impl("impl_cli.py", [{"cases": c} for c in chunks], timeout=900)
    obs = []
    for c, r in zip(chunks, res):
        if "error" in r:
            ck.broke("impl-runner", r)
            obs += [{"k": "crash", "detail": "runner failed"}] * len(c)
        else:
            obs += r["obs"]
    return obs


TAG_CASES = [
    ("component:\n  type: t:T\n  a: !Env VERIF_TAG_VAR\n  b: !TextFile {path}\n  c: !BinaryFile {path}\n  d: !Env VERIF_UNSET_VAR\n",
     lambda path: {"a": "from-env", "b": "file text\n", "c": {"__bytes__": "file text\n"}, "d": None}),
]


def check_tags(ck):
    """!Env / !TextFile / !BinaryFile: library behaviour, exercised on the implementation only."""
    import tempfile
    n = 0
    with tempfile.TemporaryDirectory() as tmp:
        path = f"{tmp}/data.txt"
        open(path, "w").write("file text\n")
        # a binary file is taken byte for byte: carriage returns, NUL and high bytes included
        bpath = f"{tmp}/data.bin"
        raw = b"\x89PNG\r\n\x1a\n\x00\xff line\r\nend\r"
        open(bpath, "wb").write(raw)
        ob = ck.run_impl("impl_cli.py", [{"cases": [{"files": [f"component:\n  type: t:T\n  c: !BinaryFile {bpath}\n"],
                                                      "args": ["--set", f"component.d=!BinaryFile {bpath}"], "env": None}]}])[0]
        o = ob["obs"][0] if "obs" in ob else {"k": "crash"}
        n += 1
        want = {"__bytes__": raw.decode("latin1")}
        if o.get("k") != "launch" or o["cfg"].get("c") != want or o["cfg"].get("d") != want:
            ck.fail_input("C16:tags", f"!BinaryFile did not give the file's bytes {raw!r}: {o}", {"observed": o})
        for text, expect in TAG_CASES:
            ob = ck.run_impl("impl_cli.py", [{"cases": [{"files": [text.format(path=path)], "args": [], "env": None,
                                                          "extra_env": {"VERIF_TAG_VAR": "from-env"}}]}])[0]
            o = ob["obs"][0] if "obs" in ob else {"k": "crash"}
            n += 1
            if o.get("k") != "launch" or o["cfg"] != expect(path):
                ck.fail_input("C16:tags", f"!Env/!TextFile/!BinaryFile were not replaced as documented: {o}",
                              {"yaml": text, "observed": o})
    return n


def run(ck: Check):
    ck.trusted = TRUST
    ck.prove(extra_targets=["Corr/Check_cli.v", "Config/CliExamples.v"])
    cases = [gen_case(ck.rng("case", i)) for i in range(ck.n(900, 20000))]
    obs = run_cases(ck, cases)
    terms = [case_term(c, o) for c, o in zip(cases, obs)]
    bad = ck.coq_eval("cli", HEADER, terms, "cli_case", "check_cli", shard=200)
    n_fail = 0
    seen = {}
    for c, o in zip(cases, obs):
        for sig, what in oracle(c, o):
            n_fail += 1
            size = len(json.dumps(c))
            if sig not in seen or size < seen[sig][0]:
                seen[sig] = (size, c, o, what)
    for sig, (_, c, o, what) in seen.items():
        ck.fail_input(sig, what, {"case": c, "observed": o, "command": impl_payload(c)})
    for i in bad[:10]:
        if not oracle(cases[i], obs[i]):
            ck.broke("correspondence", {"case": cases[i], "observed": obs[i]})
    ntags = check_tags(ck)
    dist = {"layouts": {}, "files": {}, "overrides": {}, "flag": 0, "env": 0, "outcomes": {}}
    for c, o in zip(cases, obs):
        dist["layouts"][c["layout"]] = dist["layouts"].get(c["layout"], 0) + 1
        dist["files"][len(c["files"])] = dist["files"].get(len(c["files"]), 0) + 1
        dist["overrides"][len(c["overrides"])] = dist["overrides"].get(len(c["overrides"]), 0) + 1
        dist["flag"] += c["flag"] is not None
        dist["env"] += c["env"] is not None
        k = o["k"] if o["k"] != "err" else o["e"]
        dist["outcomes"][k] = dist["outcomes"].get(k, 0) + 1
    distinct = {json.dumps(c, sort_keys=True): (o["k"] == "launch" and (len(c["files"]) > 1 or c["overrides"]))
                for c, o in zip(cases, obs)}
    ck.coverage.update({
        "evaluations": len(cases),
        "distinct_nontrivial": sum(1 for v in distinct.values() if v),
        "rule": "seeded command lines: 1-3 YAML files with overlapping nested keys (later files override / extend "
                "earlier ones), 0-3 --set overrides (existing nested paths, new paths, below scalars, escaped and "
                "unescaped dotted keys, YAML-typed values incl. inline maps/lists, missing '='), 9 service layouts "
                "(none / one / several / with-without default / top-level component with or without services / "
                "services of a wrong type / empty) x --service (-s/--service, existing, unknown, empty) x "
                "ASPHALT_SERVICE; malformed stream: service sections None/int, component not a dict, missing type. "
                "distinct = by case; non-trivial = starts the application and has > 1 file or an override",
        "samples": [{"command": impl_payload(c), "observed": o} for c, o in list(zip(cases, obs))[:2]],
        "traces_validated_against_impl": len(cases) - len(bad),
        "mismatches": len(bad),
        "input_distribution": dist,
        "oracle_failures": n_fail,
        "tag_cases": ntags,
        "partial_clauses": ["!Env / !TextFile / !BinaryFile, the YAML typing of --set values and click's parsing are "
                            "library behaviour: exercised on the implementation (correspondence / fixed cases), the "
                            "model starts from parsed values"],
    })
    if ck.tier == "thorough":
        ck.coqchk()


def replay(ck: Check, obj) -> int:
    rp = obj.get("replay") or obj["no_longer_checks"][0]["detail"]
    if "case" not in rp:
        # one of the fixed cases for the !Env / !TextFile / !BinaryFile tags: run them again
        before = len(ck.failures)
        check_tags(ck)
        for f in ck.failures[before:]:
            print("ORACLE:", f["signature"], "-", f["what"][:300])
        print("tag cases:", "FAIL" if len(ck.failures) > before else "hold")
        return 1 if len(ck.failures) > before else 0
    case = rp["case"]
    ob = run_cases(ck, [case])[0]
    print("command:", impl_payload(case))
    print("observed:", ob)
    print("documented:", oracle_expect(case))
    bad = oracle(case, ob)
    for b in bad:
        print("ORACLE:", b[0], "-", b[1])
    mism = ck.coq_eval("replay", HEADER, [case_term(case, ob)], "cli_case", "check_cli")
    print("model/implementation correspondence:", "DISAGREE" if mism else "agree")
    return 1 if bad or mism else 0
