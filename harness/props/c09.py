"""C09 - Task factories: inherited context, exact handle set, teardown waits, errors kept.
Model Conc/Factory.v, theorems Props/C09.v (Conc/FactoryProofs.v), tie K: generated factory programs
under the lock-step director; after every step the observation batch and all_task_handles()."""
from __future__ import annotations

import json

from harness.core import COMMON_TRUST, Check, cbool, clist

HEADER = "From Asphalt Require Import Corr.Check_fac.\n"
TRUST = COMMON_TRUST + [
    "modelled, not verified: anyio task groups (the factory's inner group waits for its children and accepts new "
    "ones meanwhile; an unhandled child exception cancels the siblings), per-task cancel scopes, Events",
    "wait_finished() is observed through one watcher task per handle",
]


def gen_case(r):
    verdict = r.choice([None, None, True, True, False])
    gates = []
    n = 0
    live = []
    torn = False
    crashed = False
    for step in range(r.choice([6, 10, 14, 18])):
        k = r.random()
        if torn and k < 0.32 and r.random() < 0.6:
            k = 0.5                        # after the teardown has begun spawn less often
        if k < 0.32 and n < 7:
            segs = r.choice([0, 1, 1, 2, 3])
            raising = r.random() < (0.3 if verdict is not False else 0.12) if verdict is not None else r.random() < 0.08
            ending = ["ERaise", 10 + n] if raising else ["EReturn"]
            oncancel = 50 + n if segs and r.random() < 0.25 else None
            gates.append(["Spawn", segs, ending, r.choice(["soon", "start"]), r.choice(["owner", "child", "direct"]), oncancel])
            live.append(n)
            n += 1
        elif k < 0.36 and n < 7:
            segs = r.choice([0, 1, 2])
            ending = ["ERaise", 10 + n] if r.random() < 0.15 and verdict is not None else ["EReturn"]
            oncancel = 50 + n if segs and r.random() < 0.2 else None
            # [kind, segs, ending, how, from, oncancel, index of the task]
            gates.append(["SpawnCancel", segs, ending, "soon", r.choice(["owner", "child", "direct"]), oncancel, n])
            n += 1
        elif k < 0.75 and live:
            gates.append(["Task", r.choice(live)])
        elif k < 0.88 and live:
            gates.append(["Cancel", r.choice(live + list(range(n)))])
        elif k < 0.95 and not torn and step >= 4:
            gates.append(["Teardown"])
            torn = True
        elif n:
            gates.append(["Task", r.randrange(n)])
    if not torn and r.random() < 0.7:
        gates.append(["Teardown"])
    for k in range(n):                     # run everything to the end so that the owner can be left
        for _ in range(3):
            gates.append(["Task", k])
    if r.random() < 0.5:
        gates.append(["Spawn", 1, ["EReturn"], r.choice(["soon", "start"]), "direct", None])   # after teardown: must fail
    return {"verdict": verdict, "nested": r.random() < 0.5, "gates": gates}


def gates_term(g):
    """the model gates one harness step stands for"""
    if g[0] == "SpawnCancel":
        # start_task_soon() and cancel() on the handle at once, before the task has run at all
        return clist([gate_term(["Spawn"] + g[1:]), f"(GCancel {g[-1]})"])
    return clist([gate_term(g)])


def gate_term(g):
    if g[0] == "Spawn":
        e = "EReturn" if g[2][0] == "EReturn" else f"(ERaise {g[2][1]})"
        oc = "None" if len(g) < 6 or g[5] is None else f"(Some {g[5]})"
        return f"(GSpawn (Beh {g[1]} {e} {oc}))"
    if g[0] == "Task":
        return f"(GTask {g[1]})"
    if g[0] == "Cancel":
        return f"(GCancel {g[1]})"
    return "GTeardown"


def obs_term(o):
    k = o[0]
    if k == "Spawned":
        return f"(Spawned {o[1]} {cbool(o[2])})"
    if k in ("SpawnFailed", "OwnerLeft"):
        return k
    if k == "Handler":
        return f"(Handler {o[1]} {o[2]})"
    return f"({k} {o[1]})"


def case_term(r):
    v = {None: "None", True: "(Some true)", False: "(Some false)"}[r["verdict"]]
    steps = clist(f"({gates_term(s['gate'])}, ({clist(obs_term(o) for o in s['obs'])}, {clist(map(str, s['live']))}))"
                  for s in r["steps"])
    return f"(FC {v} {steps})"


# ------------------------------------------------------------------ oracle: the property, restated
def oracle(r):
    bad = []
    spawned, finished = set(), set()
    crashed = False
    if r["first"]:
        bad.append(("C09:odd", f"observations before the first step: {r['first']}"))
    handler_calls = {}
    torn = False
    cancelled_at_birth = set()
    for i, s in enumerate(r["steps"]):
        if s["gate"][0] == "SpawnCancel" and any(o[0] == "Spawned" and o[1] == s["gate"][6] for o in s["obs"]):
            cancelled_at_birth.add(s["gate"][6])
        for o in s["obs"]:
            if o[0] == "Seg" and o[1] in cancelled_at_birth:
                # cancel() on the handle straight after the spawn, before the task was first scheduled: the task is
                # cancelled all the same -- it never gets past its first checkpoint
                bad.append(("C09:cancel-ignored", f"step {i}: task {o[1]} was cancelled through its handle straight "
                            f"after it had been spawned and went on running all the same"))
            if o[0] == "Spawned":
                spawned.add(o[1])
                if not o[2]:
                    bad.append(("C09:context", f"step {i}: task {o[1]} does not run in a child of the factory's own context"))
            elif o[0] == "Ended":
                finished.add(o[1])
            elif o[0] == "Handler":
                handler_calls[o[1]] = handler_calls.get(o[1], 0) + 1
            elif o[0] == "OwnerRaised":
                crashed = True
            elif o[0] == "SpawnFailed" and not torn and not crashed:
                bad.append(("C09:spawn-refused", f"step {i}: the factory refused a task although its owning context is "
                            f"open and nothing has failed"))
            elif o[0] == "CancelSeen" and s["gate"][0] == "Teardown":
                bad.append(("C09:teardown-cancelled", f"step {i}: tearing the owner down cancelled task {o[1]}"))
            elif o[0] == "OwnerLeft" and spawned - finished:
                bad.append(("C09:teardown-did-not-wait", f"step {i}: the owner's block was left while tasks "
                            f"{sorted(spawned - finished)} were still running"))
        if s["gate"][0] == "Teardown":
            torn = True
        if s["gate"][0] in ("Cancel", "SpawnCancel"):
            hit = [o[1] for o in s["obs"] if o[0] == "CancelSeen"]
            tgt_ = s["gate"][1] if s["gate"][0] == "Cancel" else s["gate"][6]
            if any(h != tgt_ for h in hit) and not crashed:
                bad.append(("C09:cancel-hit-others", f"step {i}: cancelling handle {s['gate'][1]} cancelled {hit}"))
        if sorted(spawned - finished) != s["live"] and not crashed:
            bad.append(("C09:handles", f"step {i} ({s['gate']}): all_task_handles() = {s['live']}, spawned and not "
                        f"finished = {sorted(spawned - finished)}"))
        if crashed and s["live"]:
            bad.append(("C09:handles", f"step {i}: handles {s['live']} listed after the application went down"))
    raising, oncancel = {}, {}
    k = 0
    for g in r["gates"]:
        if g[0] in ("Spawn", "SpawnCancel"):
            if g[2][0] == "ERaise":
                raising[k] = g[2][1]
            if len(g) > 5 and g[5] is not None:
                oncancel[k] = g[5]
            k += 1
    for k, n in handler_calls.items():
        if n != 1:
            bad.append(("C09:handler-twice", f"the exception handler was called {n} times for task {k}"))
        if k not in raising and k not in oncancel:
            bad.append(("C09:handler-spurious", f"the exception handler was called for task {k}, which did not raise"))
    if r["verdict"] is True and crashed:
        bad.append(("C09:swallow-ignored", "the handler returned a truthy value but the exception propagated"))
    # an escaping exception: handler consulted (when there is one), propagates unless swallowed
    segs_done, beh, k = {}, {}, 0
    went_down = None
    for s in r["steps"]:
        g = s["gate"]
        if g[0] in ("Spawn", "SpawnCancel") and any(o[0] == "Spawned" for o in s["obs"]):
            k = [o[1] for o in s["obs"] if o[0] == "Spawned"][0]
            beh[k] = (g[1], g[2])
            segs_done[k] = 0
        for o in s["obs"]:
            if o[0] == "Seg":
                segs_done[o[1]] = segs_done.get(o[1], 0) + 1
        raised_now = [k for k, (n, ending) in beh.items() if ending[0] == "ERaise" and segs_done.get(k) == n
                      and ((g[0] == "Task" and g[1] == k and any(o == ["Seg", k] for o in s["obs"]))
                           or (g[0] in ("Spawn", "SpawnCancel") and n == 0 and ["Spawned", k, True] in s["obs"]))]
        for k, (n, ending) in beh.items():
            if ending[0] == "EReturn" and went_down is None and ["Ended", k] not in s["obs"] and (
                    (g[0] == "Task" and g[1] == k and segs_done.get(k) == n and ["Seg", k] in s["obs"])
                    or (g[0] in ("Spawn", "SpawnCancel") and n == 0 and ["Spawned", k, True] in s["obs"])):
                bad.append(("C09:wait-finished", f"task {k} returned but wait_finished() did not return"))
        raised = [(k, beh[k][1][1]) for k in raised_now]
        tgt = g[1] if g[0] == "Cancel" else (g[6] if g[0] == "SpawnCancel" else None)
        if tgt is not None and tgt in oncancel and ["CancelSeen", tgt] in s["obs"]:
            raised.append((tgt, oncancel[tgt]))          # raises while unwinding from cancel()
        for k, e in raised:
            if went_down is not None:
                continue
            if r["verdict"] is not None and ["Handler", k, e] not in s["obs"]:
                bad.append(("C09:handler-not-called", f"task {k} raised {e} but the handler was not consulted with it"))
            if ["Ended", k] not in s["obs"]:
                bad.append(("C09:wait-finished", f"task {k} raised but wait_finished() did not return"))
            if r["verdict"] is not True:
                went_down = e
                if ["OwnerRaised", e] not in s["obs"]:
                    bad.append(("C09:exception-lost", f"task {k} raised {e} (handler verdict {r['verdict']}) but it did "
                                f"not propagate out of the owning root context: {s['obs']}"))
    # wait_finished() returns once the task has ended for any reason
    for i, s in enumerate(r["steps"]):
        for o in s["obs"]:
            if o[0] == "CancelSeen" and ["Ended", o[1]] not in s["obs"]:
                bad.append(("C09:wait-finished", f"step {i}: task {o[1]} was cancelled but wait_finished() did not return"))
    if r["left"] and spawned - finished:
        bad.append(("C09:wait-finished", f"wait_finished() never returned for tasks {sorted(spawned - finished)}"))
    return bad


def collect(ck, n):
    cases = []
    for i in range(n):
        c = gen_case(ck.rng("fac", i))
        c["backend"] = "asyncio" if i % 2 == 0 else "trio"
        cases.append(c)
    chunk = max(1, (len(cases) + 15) // 16)
    chunks = [cases[i:i + chunk] for i in range(0, len(cases), chunk)]
    res = ck.run_impl("impl_fac.py", [{"cases": c} for c in chunks], timeout=900)
    out = []
    for c, rr in zip(chunks, res):
        if "error" in rr:
            ck.broke("impl-runner", rr)
            continue
        out += rr["results"]
    crashed = [r for r in out if "crash" in r]
    if crashed:
        c0 = crashed[0]
        ck.runner_crash({"backend": c0["backend"], "verdict": c0.get("verdict"), "nested": c0.get("nested"),
                         "gates": c0["gates"]}, c0["crash"])
    return [r for r in out if "crash" not in r]


def run(ck: Check):
    ck.trusted = TRUST
    ck.prove(extra_targets=["Corr/Check_fac.v", "Conc/FactoryExamples.v"])
    results = collect(ck, ck.n(1000, 20000))
    terms = [case_term(r) for r in results]
    bad = ck.coq_eval("fac", HEADER, terms, "fac_case", "check_fac", shard=200)
    ck.run_fixed({"unaccepted_task_exception_and_the_blocks_own_both_come_out": "C09:exception-lost",
                  "wait_finished_means_completely_finished": "C09:wait-finished",
                  "start_value_and_failed_starts": "C09:start-value",
                  "owner_left_by_baseexception_waits_for_tasks": "C09:teardown-cancelled",
                  "handler_sees_the_escaping_exception_once": "C09:handler-twice"})
    sigs, n_fail = {}, 0
    for r in results:
        for sig, what in oracle(r):
            n_fail += 1
            size = len(r["gates"])
            if sig not in sigs or size < sigs[sig][0]:
                sigs[sig] = (size, r, what)
    for sig, (_, r, what) in sigs.items():
        ck.fail_input(sig, what, {"backend": r["backend"], "verdict": r["verdict"], "nested": r["nested"],
                                  "gates": r["gates"], "steps": r["steps"]})
    for i in bad[:10]:
        if not oracle(results[i]):
            ck.broke("correspondence", {"backend": results[i]["backend"], "verdict": results[i]["verdict"],
                                        "nested": results[i]["nested"], "gates": results[i]["gates"],
                                        "steps": results[i]["steps"]})
    dist = {"verdict": {}, "spawns": 0, "spawn_failed": 0, "cancels": 0, "handler_calls": 0, "crashed": 0, "left": 0}
    for r in results:
        dist["verdict"][str(r["verdict"])] = dist["verdict"].get(str(r["verdict"]), 0) + 1
        dist["left"] += r["left"]
        for s in r["steps"]:
            for o in s["obs"]:
                dist["spawns"] += o[0] == "Spawned"
                dist["spawn_failed"] += o[0] == "SpawnFailed"
                dist["cancels"] += o[0] == "CancelSeen"
                dist["handler_calls"] += o[0] == "Handler"
                dist["crashed"] += o[0] == "OwnerRaised"
    distinct = {json.dumps([r["verdict"], r["gates"]]): sum(1 for g in r["gates"] if g[0] in ("Spawn", "SpawnCancel")) >= 2 for r in results}
    ck.coverage.update({
        "evaluations": len(results),
        "distinct_nontrivial": sum(1 for v in distinct.values() if v),
        "rule": "seeded factory programs: a task factory (no handler / handler returning True / False) started in a root "
                "or nested owner context; 0-7 tasks spawned with start_task / start_task_soon from the owner's context, "
                "from a child context of it or from outside, each running 0-3 gated segments and then returning or "
                "raising; handles cancelled (running, finished and foreign indices); the owner torn down at a "
                "schedule-chosen moment; spawning after the teardown; after EVERY step all_task_handles() and the "
                "observation batch are compared with the model. distinct = by (verdict, gates); non-trivial = >= 2 tasks",
        "samples": [{"verdict": r["verdict"], "steps": r["steps"][:8]} for r in results[:1]],
        "traces_validated_against_impl": len(results) - len(bad),
        "mismatches": len(bad),
        "input_distribution": dist,
        "oracle_failures": n_fail,
    })
    if ck.tier == "thorough":
        ck.coqchk()


def replay(ck: Check, obj) -> int:
    rp = obj.get("replay") or obj["no_longer_checks"][0]["detail"]
    r = ck.run_impl("impl_fac.py", [{"cases": [{"verdict": rp["verdict"], "nested": rp["nested"], "gates": rp["gates"],
                                                 "backend": rp["backend"]}]}])[0]["results"][0]
    if "crash" in r:
        print(r["crash"])
        return 1
    for s in r.get("steps", []):
        print(s)
    bad = oracle(r)
    for b in bad:
        print("ORACLE:", b[0], "-", b[1])
    mism = ck.coq_eval("replay", HEADER, [case_term(r)], "fac_case", "check_fac")
    print("model/implementation correspondence:", "DISAGREE" if mism else "agree")
    return 1 if bad or mism else 0
