"""C02 - Resources are scoped to the context tree.  Model Ctx/ResModel.v, theorems Props/C02.v,
tie K (histories over context forests, probe of every context after every operation)."""
from harness import res_common as rc


def run(ck):
    rc.run_property(ck, "mask_C02", rc.oracle_C02, fixed=rc.FIXED_HISTORIES)
    ck.run_fixed({"inject_across_short_lived_contexts": "C02:resource-of-a-dead-context",
                  "lookup_paths_agree_inside_a_component": "C02:lookup-paths-disagree",
                  "generic_alias_types_are_found_by_every_lookup": "C02:lookup-paths-disagree",
                  "leaving_a_context_with_an_explicit_parent": "C02:added-elsewhere",
                  "failing_factory_leaves_the_current_context_alone": "C02:added-elsewhere"})


def replay(ck, obj):
    return rc.replay_generic(ck, obj, rc.oracle_C02, "mask_C02")
