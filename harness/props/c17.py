"""C17 - merge_config is a pure, right-biased deep merge.  Tie: T (translation of merge_config,
Gen/Gen_merge.v + Gen/Tie_merge.v) and K (random/exhaustive pairs of trees)."""
from __future__ import annotations

import copy
import itertools

from harness import trees
from harness.core import COMMON_TRUST, Check

HEADER = "From Asphalt Require Import Corr.Check_merge.\n"


def gen_cases(ck: Check, n: int):
    cases = []
    # fixed corner cases first
    cases += [(None, None), ({}, None), (None, {}), ({"a": 1}, None), (None, {"a": {"b": 1}}),
              ({"a": {"b": 1}}, {"a": 5}), ({"a": 5}, {"a": {"b": 1}}), ({"a": [1]}, {"a": [2]}),
              ({"a.b": 1, "a": {"b": 2}}, {"a.b": {"c": 1}, "a": {"b": {"d": 1}}}),
              ({"a": {"b": {"c": {"d": 1, "e": 2}}}}, {"a": {"b": {"c": {"d": {"x": 1}}, "f": None}}}),
              ({"a": {}}, {"a": {}}), ({"a": None}, {"a": {"x": 1}}), ({"a": {"x": 1}}, {"a": None}),
              ({"a": 1, "b": {"c": 0}}, {"a": True, "b": {"c": False}}), ({"a": True}, {"a": 1}), ({"a": [1]}, {"a": [True]})]
    for i in range(n):
        r = ck.rng("case", i)
        d = r.randrange(0, 6)
        o = None if r.random() < 0.08 else trees.gen_dict(r, d)
        if r.random() < 0.08:
            v = None
        elif r.random() < 0.7 and isinstance(o, dict):
            v = trees.mutate_like(r, o, d)
        else:
            v = trees.gen_dict(r, d)
        if isinstance(v, dict) and isinstance(o, dict) and r.random() < 0.15:
            # the same sub-dictionary at two places of the overrides (there it will be one object), meeting
            # dictionaries with keys of their own in the original
            subs = [k for k, x in v.items() if isinstance(x, dict) and x]
            if subs:
                k = r.choice(subs)
                v["also_" + k] = copy.deepcopy(v[k])
                for kk in (k, "also_" + k):
                    if not isinstance(o.get(kk), dict):
                        o[kk] = {}
                    o[kk]["own_" + kk] = 1
        cases.append((o, v))
    return cases


def exhaustive_cases():
    """All pairs of trees of depth <= 2 over two keys and two leaves (thorough tier)."""
    leaves = [1, None]
    level0 = leaves

    def dicts(vals):
        out = []
        for va in [NotImplemented] + vals:
            for vb in [NotImplemented] + vals:
                d = {}
                if va is not NotImplemented:
                    d["a"] = va
                if vb is not NotImplemented:
                    d["b"] = vb
                out.append(d)
        return out
    d1 = dicts(level0)
    d2 = dicts(level0 + d1[:5])
    return [(copy.deepcopy(a), copy.deepcopy(b)) for a, b in itertools.product(d2, d2)]


def spec_merge(o, v):
    """Independent restatement of the property (oracle)."""
    res = {}
    for k in list(o or {}) + [k for k in (v or {}) if k not in (o or {})]:
        in_o, in_v = k in (o or {}), k in (v or {})
        if in_o and in_v and isinstance(o[k], dict) and isinstance(v[k], dict):
            res[k] = spec_merge(o[k], v[k])
        elif in_v:
            res[k] = v[k]
        else:
            res[k] = o[k]
    return res


def oracle(case, ob):
    o, v = case
    if "exc" in ob:
        return "raised " + ob["exc"]
    if not ob["o_unchanged"] or ob["o_after"] != o:
        return "the first argument was modified"
    if not ob["v_unchanged"] or ob["v_after"] != v:
        return "the second argument was modified"
    if not ob["fresh"]:
        return "the result is not a new dictionary"
    if ob["result"] != spec_merge(o, v) or trees.canon(ob["result"]) != trees.canon(spec_merge(o, v)):
        return "wrong merge result"
    if ob.get("passed_through") is False:
        return "a value of the result is a copy of the argument's value, not the value itself"
    if ob.get("result_is_the_callers") is False:
        return "the result is not a new dictionary: what the caller wrote into it shows in a later result (or in an argument)"
    if ob.get("chain_ok") is False:
        return "the first argument was modified: an earlier result passed in again as `original` was updated in place"
    if ob.get("second_call_ok") is False:
        return "a second call with the same (meanwhile changed) argument objects did not merge what they hold now"
    return None


def case_term(case, ob):
    o, v = case
    if "exc" in ob:
        return (f"(MC {trees.odict_term(o)} {trees.odict_term(v)} TNone TNone TNone false)")
    return (f"(MC {trees.odict_term(o)} {trees.odict_term(v)} {trees.tree_term(ob['result'])} "
            f"{trees.tree_term(ob['o_after'])} {trees.tree_term(ob['v_after'])} "
            f"{'true' if ob['fresh'] else 'false'})")


def run_cases(ck, cases, subclasses=None):
    chunks = [cases[i:i + 500] for i in range(0, len(cases), 500)]
    # third element: make equal non-empty sub-dictionaries of the overrides one object (aliases); fourth: every
    # other nested dictionary is an instance of a dict subclass (odd cases, or as recorded in a replay)
    res = ck.run_impl("impl_merge.py", [{"cases": [[o, v, True, bool(i % 2) if subclasses is None else subclasses]
                                                   for i, (o, v) in enumerate(c)]} for c in chunks])
    obs = []
    for c, r in zip(chunks, res):
        if "error" in r:
            ck.broke("impl-runner", r)
            obs += [{"exc": "runner failed"}] * len(c)
        else:
            obs += r["obs"]
    return obs


def run(ck: Check):
    ck.trusted = COMMON_TRUST + [
        "translator translate/py2coq.py (Python ast -> Gallina heap monad) for merge_config; its "
        "output is additionally cross-checked against the real function on every case",
        "modelled, not verified: Python dict semantics (insertion-ordered association list with "
        "unique string keys), truthiness of dict/None, isinstance(_, dict); lists and other "
        "non-dict leaves are opaque values",
    ]
    ck.prove(extra_targets=["Corr/Check_merge.v"])
    if not ck.tie["translation"]["Gen_merge"]["ok"]:
        ck.notes.append("translator rejected the current text of merge_config: " +
                        ck.tie["translation"]["Gen_merge"]["reason"] +
                        " -- falling back on the correspondence tie against the hand-written twin")
    cases = gen_cases(ck, ck.n(2500, 60000))
    exhaustive = False
    if ck.tier == "thorough":
        cases += exhaustive_cases()
        exhaustive = True
    obs = run_cases(ck, cases)
    terms = [case_term(c, o) for c, o in zip(cases, obs)]
    bad = ck.coq_eval("merge", HEADER, terms, "merge_case", "check_merge_case")
    n_fail = 0
    for i, (c, o) in enumerate(zip(cases, obs)):
        why = oracle(c, o)
        if why:
            n_fail += 1
            if n_fail <= 50:
                ck.fail_input("merge:" + why, f"merge_config({c[0]!r}, {c[1]!r}): {why}",
                              {"original": c[0], "overrides": c[1], "observed": o, "expected": spec_merge(*c),
                               "dict_subclasses": bool((i % 500) % 2)})
    for i in bad[:20]:
        if not oracle(cases[i], obs[i]):
            ck.broke("correspondence", {"case": i, "original": cases[i][0], "overrides": cases[i][1],
                                        "observed": obs[i]})
    distinct = {}
    for c in cases:
        o, v = c
        nontrivial = bool(o) and bool(v) and any(k in o for k in v)
        distinct[trees.canon(c)] = nontrivial
    ck.coverage.update({
        "evaluations": len(cases),
        "distinct_nontrivial": sum(1 for x in distinct.values() if x),
        "rule": "pairs (original, overrides) of nested dicts: 13 fixed corner cases + seeded random trees "
                "(depth 0-5, width 0-4, keys incl. dotted and empty, leaves int/str/None/bool/list/{}; overrides "
                "derived from the original so that ~half of the keys collide; None arguments 8%)"
                + ("; plus ALL pairs of trees of depth<=2 over keys {a,b}, leaves {1,None}" if exhaustive else "")
                + ". distinct = by canonical JSON of the pair; non-trivial = both non-empty and at least one "
                  "top-level key collides",
        "samples": [{"original": c[0], "overrides": c[1], "result": o.get("result")} for c, o in
                    list(zip(cases, obs))[13:16]],
        "traces_validated_against_impl": len(cases) - len(bad),
        "mismatches": len(bad),
        "exhaustive": False,
        "input_distribution": {
            "none_original": sum(1 for c in cases if c[0] is None),
            "none_overrides": sum(1 for c in cases if c[1] is None),
            "max_depth": max(max(trees.depth(c[0] or {}), trees.depth(c[1] or {})) for c in cases),
            "dict_dict_collisions": sum(1 for o, v in cases if o and v and any(
                isinstance(o.get(k), dict) and isinstance(v[k], dict) for k in v)),
            "dict_scalar_collisions": sum(1 for o, v in cases if o and v and any(
                k in o and isinstance(o.get(k), dict) != isinstance(v[k], dict) for k in v)),
        },
        "partial_clauses": [],
    })
    if ck.tier == "thorough":
        ck.coqchk()


def replay(ck: Check, obj) -> int:
    rp = obj["replay"]
    case = (rp["original"], rp["overrides"])
    ob = run_cases(ck, [case], subclasses=bool(rp.get("dict_subclasses")))[0]
    print("implementation:", ob)
    print("property requires:", spec_merge(*case), "and unchanged arguments")
    why = oracle(case, ob)
    print("oracle:", why or "ok")
    return 1 if why else 0
