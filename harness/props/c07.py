"""C07 - see properties.jsonl.  Model Conc/Startup.v (control skeleton Conc/Skeleton.v), theorems
Props/C07.v, tie K: generated component trees run with the real start_component under the lock-step
director (virtual time), compared with the model at every step."""
from harness import start_common as sc

MODES = {"05": ["nowait", "mixed", "mixed", "cyclic"], "06": ["mixed", "mixed", "missing", "cyclic", "mixed"],
         "07": ["fail", "fail", "mixed", "missing", "cyclic"]}["07"]
ORACLE = {"05": sc.oracle_C05, "06": sc.oracle_C06_full, "07": sc.oracle_C07}["07"]


def run(ck):
    sc.run_property(ck, ORACLE, MODES)
    ck.run_fixed({"factory_error_fails_the_component": "C07:error-lost",
                  "timeout_is_a_timeouterror_wherever_the_component_hangs": "C07:timeout-not-a-timeouterror",
                  "nested_start_component_keeps_its_own_timeout": "C07:timeout-ignored",
                  "timeout_watches_every_tree": "C07:timeout-ignored",
                  "refused_resource_of_a_failed_start_leaves_no_callback": "C07:teardown-after-failure",
                  "tree_started_in_a_nested_context_belongs_to_it": "C07:teardown-after-failure"})


def replay(ck, obj):
    return sc.replay_generic(ck, obj, ORACLE)
