"""Shared by C02 C03 C04 C13 C18: run generated histories on the implementation
(harness/impl/impl_res.py), print them as Gallina terms for Corr/Check_res.v, and the independent
Python oracles (one per property) that classify a disagreement and search for failing inputs."""
from __future__ import annotations

import json

from harness.core import COMMON_TRUST, Check, cbool, clist, cnat, copt, cstr

HEADER = "From Asphalt Require Import Corr.Check_res.\n"

ERRS = {"RuntimeErr", "ValueErr", "TypeErr", "Conflict", "NotFound", "AsyncErr"}

RES_TRUST = COMMON_TRUST + [
    "modelled, not verified: objects/types/callbacks are opaque identities; names are ASCII; the event "
    "stream used by the listeners (anyio memory object streams); task scheduling of suspended async "
    "factories (driven through explicit gates)",
    "the lifecycle guard table is regenerated from the source (Gen/Gen_guards.v) and proved equal to the "
    "model's table (Ctx/GuardTie.v)",
]


# ------------------------------------------------------------------ printing
def val_term(v):
    if v[0] == "static":
        return f"(Static {cnat(v[1])})"
    if v[0] == "gen":
        return f"(Gen {cnat(v[1])} {cnat(v[2])} {cnat(v[3])})"
    return "(Static 4999)"


def out_term(o):
    k = o["k"]
    if k in ("OK", "NoneVal", "Pending"):
        return k
    if k == "Val":
        return f"(Val {val_term(o['v'])})"
    if k == "Err":
        return f"(Err {o['e']})" if o["e"] in ERRS else "Invalid"
    if k == "Map":
        return "(Map " + clist(f"({cstr(n)}, {val_term(v)})" for n, v in o["m"]) + ")"
    if k == "Began":
        return "(Began " + clist(map(cnat, o["ran"])) + ")"
    if k == "Exited":
        return "(Exited " + clist(map(cnat, o["ran"])) + " " + cbool(o["corrupt"]) + ")"
    raise ValueError(k)


def cb_term(cb):
    return "NoCb" if cb is None else "BadCb" if cb == "bad" else f"(Cb {cnat(cb)})"


def op_term(op):
    k = op["op"]
    if k == "New":
        return f"(New {copt(op['p'], cnat)})"
    c = cnat(op["c"])
    if k == "Enter":
        a = "AEnter"
    elif k == "ExitBegin":
        a = f"(AExitBegin {cbool(op.get('exc', False))})"
    elif k == "ExitEnd":
        a = "AExitEnd"
    elif k == "AddResource":
        a = (f"(AAddResource {copt(op['v'], cnat)} {cnat(op['vty'])} {cstr(op['name'])} "
             f"{clist(map(cnat, op['types']))} {copt(op['desc'], cnat)} {cb_term(op['cb'])})")
    elif k == "AddFactory":
        a = (f"(AAddFactory {cnat(op['f'])} {op['kind']} {cstr(op['name'])} "
             f"{clist(map(cnat, op['types']))} {copt(op['desc'], cnat)})")
    elif k == "GetNowait":
        a = f"(AGetNowait {cnat(op['t'])} {cstr(op['name'])} {cbool(op['optional'])})"
    elif k == "GetBegin":
        a = f"(AGetBegin {cnat(op['tok'])} {cnat(op['t'])} {cstr(op['name'])} {cbool(op['optional'])})"
    elif k == "GetEnd":
        a = f"(AGetEnd {cnat(op['tok'])})"
    elif k == "GetResources":
        a = f"(AGetResources {cnat(op['t'])})"
    elif k == "AddTeardown":
        a = f"(AAddTeardown {cb_term(op['cb'])})"
    else:
        raise ValueError(k)
    return f"(At {c} {a})"


def probe_term(p):
    maps = clist(f"({cnat(t)}, " + clist(f"({cstr(n)}, {val_term(v)})" for n, v in m) + ")"
                 for t, m in p["maps"] if m)
    evs = clist(f"(REv {clist(map(cnat, e['types']))} {cstr(e['name'])} {copt(e['desc'], cnat)} "
                f"{cbool(e['is_factory'])})" for e in p["events"])
    calls = clist(f"(({cnat(t)}, {cstr(nm)}), {cnat(n)})" for t, nm, n in p["calls"])
    return f"(P1 {cbool(p['closed'])} {maps} {evs} {calls})"


def canon_probe(p):
    return json.dumps([p["closed"], sorted((t, sorted(map(tuple_, m))) for t, m in p["maps"] if m),
                       p["events"], p["calls"]], sort_keys=True, default=str)


def tuple_(x):
    return json.dumps(x)


def case_term(result):
    prev = []
    steps = []
    for s in result["steps"]:
        deltas = []
        for i, p in enumerate(s["probe"]):
            c = canon_probe(p)
            if i >= len(prev) or prev[i] != c:
                deltas.append(f"({cnat(i)}, {probe_term(p)})")
                if i >= len(prev):
                    prev.append(c)
                else:
                    prev[i] = c
        steps.append(f"({op_term(s['op'])}, ({out_term(s['out'])}, {clist(deltas)}))")
    return clist(steps)


# ------------------------------------------------------------------ running
def collect(ck: Check, n_cases: int, n_ops: int, fixed: list | None = None):
    cases = []
    for f in fixed or []:
        for be in ("asyncio", "trio"):
            cases.append({"ops": f, "backend": be})
    for i in range(n_cases):
        cases.append({"seed": f"{ck.seed}:res:{ck.tier}:{i}", "n": n_ops if i % 4 else n_ops * 2,
                      "backend": "asyncio" if i % 2 == 0 else "trio"})
    chunk = max(1, (len(cases) + 15) // 16)
    chunks = [cases[i:i + chunk] for i in range(0, len(cases), chunk)]
    res = ck.run_impl("impl_res.py", [{"cases": c} for c in chunks], timeout=600)
    out = []
    for c, r in zip(chunks, res):
        if "error" in r:
            ck.broke("impl-runner", r)
            continue
        out += r["results"]
    out = [r for r in out if not r.get("skipped")]
    hung = [r for r in out if r.get("hang")]
    if hung:
        h0 = min(hung, key=lambda r: len(r.get("ops") or []))
        ck.fail_input(f"{ck.pid}:hang", "the history did not come to an end: after its last operation something waits "
                      "for ever (25 s of real time)", {"backend": h0["backend"], "ops": h0.get("ops") or []})
    crashed = [r for r in out if "crash" in r and not r.get("hang")]
    if crashed:
        c0 = min(crashed, key=lambda r: len(r.get("ops") or []))
        ck.runner_crash({"backend": c0["backend"], "ops": c0.get("ops") or []}, c0["crash"])
    return [r for r in out if "crash" not in r]


# ------------------------------------------------------------------ oracles
# Each oracle is a direct restatement of its property on the implementation's observations,
# independent of the Coq model.  It returns a list of (signature, description, step index).
def is_gen(v):
    return v[0] == "gen"


def maps_of(probe_i):
    return {t: {n: tuple(v) for n, v in m} for t, m in probe_i["maps"] if m}


def shadow_life(result):
    """lifecycle state of every context before each step, from the harness's own actions."""
    states, life = [], []
    for s in result["steps"]:
        states.append(list(life))
        op, out = s["op"], s["out"]
        if op["op"] == "New" and out["k"] == "OK":
            life.append("inactive")
        elif op["op"] == "Enter" and out["k"] == "OK":
            life[op["c"]] = "open"
        elif op["op"] == "ExitBegin" and out["k"] == "Began":
            life[op["c"]] = "closing"
        elif op["op"] == "ExitEnd" and out["k"] == "Exited":
            life[op["c"]] = "closed"
    return states


def oracle_C02(result):
    bad = []
    steps = result["steps"]
    vis_fac = []     # per context: key -> factory id visible there (snapshot at creation + own adds)
    begun = {}
    for i, s in enumerate(steps):
        op, out, probe = s["op"], s["out"], s["probe"]
        prev = steps[i - 1]["probe"] if i else []
        if op["op"] == "New" and out["k"] == "OK":
            vis_fac.append(dict(vis_fac[op["p"]]) if op["p"] is not None else {})
        if op["op"] == "AddFactory" and out["k"] == "OK":
            for t in op["types"]:
                vis_fac[op["c"]][(t, op["name"])] = op["f"]
        if op["op"] == "GetBegin":
            begun[(op["c"], op["tok"])] = (op["t"], op["name"])
        if op["op"] in ("GetNowait", "GetBegin", "GetEnd"):
            key = (op["t"], op["name"]) if "t" in op else begun.get((op["c"], op["tok"]))
            vf = vis_fac[op["c"]]
            if out["k"] == "Val" and is_gen(out["v"]) and vf.get(key) != out["v"][2]:
                bad.append(("C02:factory-leak", f"step {i}: lookup of {key} in context {op['c']} was served by "
                            f"factory {out['v'][2]}, which is not visible there (visible: {vf.get(key)})", i))
            if out["k"] == "Err" and out["e"].startswith("Other:") and key and key[0] < 89:
                bad.append(("C02:lookup-raised", f"step {i}: lookup of {key} in context {op['c']} raised "
                            f"{out['e'][6:]}: what a context offers does not depend on which context is current", i))
            if (out["k"] == "NoneVal" or (out["k"] == "Err" and out["e"] == "NotFound")) and key in vf:
                bad.append(("C02:factory-invisible", f"step {i}: lookup of {key} in context {op['c']} found "
                            f"nothing although factory {vf[key]} is visible there", i))
        if op["op"] == "New":
            if out["k"] != "OK":
                continue
            new = maps_of(probe[-1])
            exp = {}
            if op["p"] is not None:
                for t, m in maps_of(prev[op["p"]]).items():
                    mm = {n: v for n, v in m.items() if not is_gen(v)}
                    if mm:
                        exp[t] = mm
            new = {t: m for t, m in new.items() if m}
            if new != exp:
                bad.append(("C02:snapshot", f"step {i}: a new context sees {new}, its parent's static "
                            f"resources at creation are {exp}", i))
            touched = len(probe) - 1
        else:
            touched = op["c"]
        for j, p in enumerate(prev):
            if j != touched and maps_of(p) != maps_of(probe[j]):
                bad.append(("C02:frame", f"step {i}: operation on context {touched} changed what context {j} sees", i))
        # lookup paths agree with get_resources
        if op["op"] in ("GetNowait", "GetBegin", "GetEnd") and out["k"] == "Val" and op["op"] != "GetEnd":
            m = maps_of(probe[op["c"]]).get(op["t"], {})
            if m.get(op["name"]) != tuple(out["v"]):
                bad.append(("C02:paths", f"step {i}: lookup returned {out['v']} but get_resources shows "
                            f"{m.get(op['name'])}", i))
        if op["op"] in ("GetNowait", "GetBegin") and out["k"] in ("NoneVal",) or \
                (op["op"] in ("GetNowait", "GetBegin") and out["k"] == "Err" and out["e"] == "NotFound"):
            m = maps_of(probe[op["c"]]).get(op["t"], {})
            if op["name"] in m:
                bad.append(("C02:paths", f"step {i}: lookup found nothing but get_resources shows {m[op['name']]}", i))
    return bad


def oracle_C03(result):
    bad = []
    steps = result["steps"]
    seen = {}      # (ctx, t, name) -> value first seen
    expected_td = {}  # ctx -> stack of callback ids successfully registered
    begun = {}
    fac_pairs = []  # ctx -> (type, name) pairs that have a factory there
    life = shadow_life(result)
    for i, s in enumerate(steps):
        op, out, probe = s["op"], s["out"], s["probe"]
        prev = steps[i - 1]["probe"] if i else []
        # a name that is not a nonempty string of alphanumeric characters and underscores is never accepted
        if op["op"] in ("AddResource", "AddFactory") and out["k"] == "OK" and \
                not __import__("re").fullmatch(r"\w+", op["name"]):
            bad.append(("C03:invalid-name-accepted", f"step {i}: {op['op']} under the name {op['name']!r} succeeded", i))
        # ... nor is a `types` argument that is (or contains) something that is not a type: 90, 91 stand for 5 and 7.5
        # (add_resource validates its types; add_resource_factory only refuses None)
        if op["op"] == "AddResource" and out["k"] == "OK" and any(t in (90, 91) for t in op["types"]):
            bad.append(("C03:invalid-type-accepted", f"step {i}: add_resource with types {op['types']} (90/91: a number, "
                        f"not a type) succeeded", i))
        # a second factory for a pair that already has one in this context -- its own or one inherited when the
        # context was created -- conflicts
        if op["op"] == "New" and out["k"] == "OK":
            fac_pairs.append(set(fac_pairs[op["p"]]) if op["p"] is not None else set())
        if op["op"] == "AddFactory" and out["k"] == "OK":
            taken = [(t, op["name"]) for t in op["types"] if (t, op["name"]) in fac_pairs[op["c"]]]
            if taken:
                bad.append(("C03:no-conflict", f"step {i}: add_resource_factory succeeded although context {op['c']} "
                            f"already has a factory for {taken}", i))
            fac_pairs[op["c"]].update((t, op["name"]) for t in op["types"])
        # stability of every (type, name) binding of every context that is not closed
        for j, p in enumerate(probe):
            for t, m in maps_of(p).items():
                for n, v in m.items():
                    k = (j, t, n)
                    if k in seen and seen[k] != v:
                        bad.append(("C03:replaced", f"step {i}: context {j} ({t},{n!r}) was {seen[k]}, now {v}", i))
                    seen.setdefault(k, v)
            for (jj, t, n), v in seen.items():
                if jj == j and not p["closed"] and maps_of(p).get(t, {}).get(n) is None:
                    bad.append(("C03:vanished", f"step {i}: context {j} lost ({t},{n!r})", i))
        if op["op"] == "GetBegin":
            begun[(op["c"], op["tok"])] = (op["t"], op["name"])
        if op["op"] in ("GetNowait", "GetBegin", "GetEnd") and out["k"] == "Val":
            t_, n_ = (op["t"], op["name"]) if "t" in op else begun[(op["c"], op["tok"])]
            k = (op["c"], t_, n_)
            now = maps_of(probe[op["c"]]).get(t_, {}).get(n_)
            if now != tuple(out["v"]) and not probe[op["c"]]["closed"]:
                bad.append(("C03:lookup-not-bound", f"step {i}: lookup {k} returned {out['v']} but the pair "
                            f"resolves to {now} afterwards", i))
            if k in seen and seen[k] != tuple(out["v"]):
                bad.append(("C03:lookup-changed", f"step {i}: lookup {k} returned {out['v']}, earlier {seen[k]}", i))
        if op["op"] in ("AddResource", "AddFactory", "AddTeardown"):
            c = op["c"]
            if out["k"] == "Err":
                if canon_probe(prev[c]) != canon_probe(probe[c]):
                    bad.append(("C03:failed-add-changed-state", f"step {i}: {op['op']} raised {out['e']} but the "
                                f"context changed", i))
            else:
                cb = op.get("cb")
                if cb is not None and cb != "bad":
                    expected_td.setdefault(c, []).append(cb)
            if op["op"] == "AddResource" and out["k"] == "OK":
                pass
        # a taken pair conflicts
        if op["op"] == "AddResource" and out["k"] == "OK":
            types = op["types"] or [op["vty"]]
            pm = maps_of(prev[op["c"]])
            for t in types:
                if op["name"] in pm.get(t, {}):
                    bad.append(("C03:no-conflict", f"step {i}: add_resource succeeded on taken pair ({t},{op['name']!r})", i))
        if op["op"] in ("ExitBegin", "ExitEnd") and out["k"] in ("Began", "Exited"):
            c = op["c"]
            exp = list(reversed(expected_td.get(c, [])))
            expected_td[c] = []
            if out["ran"] != exp:
                bad.append(("C03:teardown-set", f"step {i}: callbacks run {out['ran']}, successfully registered "
                            f"(reverse order) {exp}", i))
    return bad


def overlapping_generation(result, upto):
    """F5 signature: two lookups of one context suspended in (or racing through) the same factory."""
    pend = {}
    for s in result["steps"][:upto + 1]:
        op, out = s["op"], s["out"]
        if op["op"] == "GetBegin" and out["k"] == "Pending":
            pend.setdefault((op["c"], op["t"], op["name"]), 0)
            pend[(op["c"], op["t"], op["name"])] += 1
    return any(v > 1 for v in pend.values()) or len(pend) > 1 and \
        len({c for c, _, _ in pend}) < len(pend)


def oracle_C04(result):
    bad = []
    steps = result["steps"]
    owner = {}
    toks, got = {}, {}
    for i, s in enumerate(steps):
        op, out, probe = s["op"], s["out"], s["probe"]
        # every caller of one context gets the same object for one (type, name): a pair, once bound, stays bound
        if op["op"] == "GetBegin":
            toks[(op["c"], op["tok"])] = (op["t"], op["name"])
        key = None
        if op["op"] in ("GetNowait", "GetBegin"):
            key = (op["c"], op["t"], op["name"])
        elif op["op"] == "GetEnd" and (op["c"], op["tok"]) in toks:
            key = (op["c"],) + toks[(op["c"], op["tok"])]
        # the synchronous and the asynchronous lookup agree on what is there: when the optional synchronous lookup
        # says "nothing" (None), an asynchronous lookup of the same pair in the same context, with no registration
        # in between, does not produce an object (for an asynchronous factory the synchronous one raises instead)
        if op["op"] == "GetNowait" and out["k"] == "NoneVal":
            for j in range(i + 1, len(steps)):
                o2, r2 = steps[j]["op"], steps[j]["out"]
                if o2["op"] in ("AddResource", "AddFactory"):
                    break
                k2 = None
                if o2["op"] == "GetBegin" and o2["c"] == op["c"]:
                    k2 = (o2["t"], o2["name"])
                elif o2["op"] == "GetEnd" and o2["c"] == op["c"]:
                    k2 = toks.get((o2["c"], o2["tok"])) or next(
                        ((s3["op"]["t"], s3["op"]["name"]) for s3 in steps[:j]
                         if s3["op"]["op"] == "GetBegin" and s3["op"]["c"] == o2["c"] and s3["op"]["tok"] == o2["tok"]), None)
                    if k2 and any(s3["op"]["op"] == "GetBegin" and s3["op"]["tok"] == o2["tok"] and s3["op"]["c"] == o2["c"]
                                  for s3 in steps[:i]):
                        k2 = None        # that lookup began before: something may have been registered since
                if k2 == (op["t"], op["name"]) and r2["k"] == "Val" and r2["v"] is not None:
                    bad.append(("C04:sync-async-disagree", f"step {i}: get_resource_nowait(optional) in context "
                                f"{op['c']} found nothing for {k2}; the asynchronous lookup at step {j} returned {r2['v']}", i))
                    break
        # a lookup of a proper type either returns, finds nothing, refuses (asynchronous factory through the synchronous
        # API, closed context) -- the factories of these histories never raise, so nothing else can come out of it
        if key and key[1] < 89 and out["k"] == "Err" and out["e"] not in ("NotFound", "AsyncErr", "RuntimeErr"):
            bad.append(("C04:lookup-raised", f"step {i}: lookup of {key[1:]} in context {key[0]} raised {out['e']} "
                        f"(whichever API triggers the generation returns the factory's product)", i))
        if key and out["k"] == "Val" and out["v"] and out["v"][0] == "other":
            bad.append(("C04:not-the-factorys-product", f"step {i}: lookup of {key[1:]} in context {key[0]} returned "
                        f"{out['v'][1]!r}: neither a resource that was added nor what a factory produced", i))
        if key and out["k"] == "Val" and out["v"] is not None:
            if key in got and got[key][1] != out["v"]:
                bad.append(("C04:callers-disagree", f"step {i}: lookup of {key[1:]} in context {key[0]} returned "
                            f"{out['v']}, the lookup at step {got[key][0]} returned {got[key][1]}", i))
            got.setdefault(key, (i, out["v"]))
        prev = steps[i - 1]["probe"] if i else []
        for j, p in enumerate(probe):
            for ft, fn, n in p["calls"]:
                f = (ft, fn)
                if n > 1:
                    sig = "C04:factory-called-twice"
                    if overlapping_generation(result, i):
                        sig = "C04:factory-called-twice:overlapping-async-lookups"
                    bad.append((sig, f"step {i}: factory {f} was called {n} times for context {j}", i))
            for t, m in maps_of(p).items():
                for n, v in m.items():
                    if is_gen(v) and v[1] != j:
                        bad.append(("C04:leak", f"step {i}: object generated for context {v[1]} is visible in "
                                    f"context {j} under ({t},{n!r})", i))
        if op["op"] == "GetNowait" and out["k"] == "Err" and out["e"] == "AsyncErr" and i and \
                maps_of(steps[i - 1]["probe"][op["c"]]).get(op["t"], {}).get(op["name"]) is not None:
            bad.append(("C04:sync-async-disagree", f"step {i}: get_resource_nowait raised AsyncResourceError for "
                        f"({op['t']},{op['name']!r}) in context {op['c']} although the pair already resolves to "
                        f"{maps_of(steps[i - 1]['probe'][op['c']])[op['t']][op['name']]} there", i))
        if op["op"] == "GetNowait" and out["k"] == "Err" and out["e"] == "AsyncErr":
            if canon_probe(prev[op["c"]]) != canon_probe(probe[op["c"]]):
                bad.append(("C04:asyncerr-changed-state", f"step {i}: AsyncResourceError but the context changed", i))
        if out["k"] == "Val" and is_gen(out["v"]) and out["v"][1] != op["c"]:
            bad.append(("C04:foreign-object", f"step {i}: lookup in context {op['c']} returned an object generated "
                        f"for context {out['v'][1]}", i))
    return bad


ALLOWED = {  # the property's own table
    "AddResource": {"open", "closing"}, "AddFactory": {"open"}, "GetNowait": {"open", "closing"},
    "GetBegin": {"open", "closing"}, "AddTeardown": {"open", "closing"}, "Enter": {"inactive"},
}


def oracle_C13(result):
    bad = []
    steps = result["steps"]
    life = shadow_life(result)
    for i, s in enumerate(steps):
        op, out, probe = s["op"], s["out"], s["probe"]
        prev = steps[i - 1]["probe"] if i else []
        if op["op"] in ALLOWED:
            st = life[i][op["c"]]
            rt = out["k"] == "Err" and out["e"] == "RuntimeErr"
            if (st not in ALLOWED[op["op"]]) != rt:
                bad.append((f"C13:guard:{op['op']}:{st}", f"step {i}: {op['op']} in state {st} -> {out}", i))
        if op["op"] == "GetEnd" and out["k"] == "Err" and out["e"] == "RuntimeErr" and life[i][op["c"]] in ("open", "closing"):
            # a lookup that was allowed to begin, and had to wait, is not refused afterwards while the operation
            # is still allowed (during teardown lookups are)
            bad.append((f"C13:guard:GetResource:{life[i][op['c']]}", f"step {i}: the pending get_resource() of context "
                        f"{op['c']} (state {life[i][op['c']]}) ended in RuntimeError", i))
            if rt and canon_probe(prev[op["c"]]) != canon_probe(probe[op["c"]]):
                bad.append(("C13:rejected-op-changed-state", f"step {i}: rejected {op['op']} changed the context", i))
        after = list(life[i + 1]) if i + 1 < len(life) else None
        if after is not None:
            for j, p in enumerate(probe[:len(after)]):
                if p["closed"] != (after[j] in ("closing", "closed")):
                    bad.append(("C13:closed-flag", f"step {i}: context {j} is {after[j]} but closed={p['closed']}", i))
        if op["op"] == "ExitEnd" and out["k"] == "Exited":
            # children entered from this context that are still open
            kids = [j for j, st in enumerate(life[i]) if st in ("open", "closing") and j != op["c"]
                    and parent_of(result, j) == op["c"]]
            if kids and not out["corrupt"]:
                bad.append(("C13:open-child-ignored", f"step {i}: context {op['c']} was left while its children "
                            f"{kids} are open and this was not reported (the exit ended with {out.get('outcome')})", i))
            if not kids and out["corrupt"]:
                bad.append(("C13:false-corruption", f"step {i}: stack corruption reported for context "
                            f"{op['c']} without open children", i))
    return bad


def parent_of(result, j):
    n = -1
    for s in result["steps"]:
        if s["op"]["op"] == "New" and s["out"]["k"] == "OK":
            n += 1
            if n == j:
                return s["op"]["p"]
    return None


def oracle_C18(result):
    bad = []
    steps = result["steps"]
    for i, s in enumerate(steps):
        op, out, probe = s["op"], s["out"], s["probe"]
        prev = steps[i - 1]["probe"] if i else []
        for j, p in enumerate(probe):
            old = prev[j]["events"] if j < len(prev) else []
            new = p["events"][len(old):]
            exp = []
            if op["op"] != "New" and op["c"] == j:
                if op["op"] == "AddResource" and out["k"] == "OK":
                    exp = [{"types": op["types"] or [op["vty"]], "name": op["name"], "desc": op["desc"],
                            "is_factory": False}]
                elif op["op"] == "AddFactory" and out["k"] == "OK":
                    exp = [{"types": op["types"], "name": op["name"], "desc": op["desc"], "is_factory": True}]
                elif op["op"] in ("GetNowait", "GetBegin", "GetEnd"):
                    # a first generation iff a generated object becomes visible in this step; the event
                    # names exactly the types under which it is now registered
                    before = {tuple(v) for m in maps_of(prev[j]).values() for v in m.values()}
                    newgen = {}
                    for t, m in maps_of(p).items():
                        for n, v in m.items():
                            if is_gen(v) and tuple(v) not in before:
                                newgen.setdefault((tuple(v), n), set()).add(t)
                    if newgen:
                        exp = [("gen", n, ts) for (v, n), ts in newgen.items()]
            got = [{k: e[k] for k in ("types", "name", "desc", "is_factory")} for e in new]
            if exp and isinstance(exp[0], tuple):
                ok = len(got) == 1 and len(exp) == 1 and not got[0]["is_factory"] and got[0]["name"] == exp[0][1] \
                    and set(got[0]["types"]) == exp[0][2] and len(got[0]["types"]) == len(exp[0][2])
                exp = [{"name": exp[0][1], "types": sorted(exp[0][2]), "is_factory": False}]
            else:
                ok = got == exp
            if not ok:
                bad.append(("C18:events", f"step {i}: {op} -> {out}: context {j} received {got}, expected {exp}", i))
            if any(not e["source_ok"] for e in new):
                bad.append(("C18:source", f"step {i}: event with wrong source/topic on context {j}", i))
    # a listener that reads late has received the same events, each still stamped with its own context
    if steps and result.get("lazy") is not None:
        final = steps[-1]["probe"]
        for j, got in enumerate(result["lazy"]):
            if j >= len(final):
                continue
            eager = [{k: e[k] for k in ("types", "name", "is_factory")} for e in final[j]["events"]]
            late = [{k: e[k] for k in ("types", "name", "is_factory")} for e in got]
            if late != eager:
                bad.append(("C18:late-reader", f"context {j}: a listener reading at the end received {late}, one reading "
                            f"at once received {eager}", len(steps) - 1))
            if any(not e["source_ok"] for e in got):
                bad.append(("C18:source", f"context {j}: an event read late carries another context as its source",
                            len(steps) - 1))
    return bad


def nontrivial(result) -> bool:
    ops = [s["op"]["op"] for s in result["steps"]]
    oks = [s for s in result["steps"] if s["out"]["k"] in ("OK", "Val")]
    return ("New" in ops[1:] and any(s["op"]["op"] in ("AddResource", "AddFactory") for s in oks)
            and any(s["op"]["op"].startswith("Get") for s in oks))


def distribution(results):
    d = {"ops": {}, "outs": {}, "contexts": {}, "backend": {}}
    for r in results:
        d["backend"][r["backend"]] = d["backend"].get(r["backend"], 0) + 1
        n = sum(1 for s in r["steps"] if s["op"]["op"] == "New")
        d["contexts"][n] = d["contexts"].get(n, 0) + 1
        for s in r["steps"]:
            d["ops"][s["op"]["op"]] = d["ops"].get(s["op"]["op"], 0) + 1
            k = s["out"]["k"] + (":" + s["out"]["e"] if s["out"]["k"] == "Err" else "")
            d["outs"][k] = d["outs"].get(k, 0) + 1
    return d


def shrink(ck: Check, result, oracle, sig):
    """Delta-debug the op list of a failing history (re-running the implementation)."""
    ops = [s["op"] for s in result["steps"]]
    be = result["backend"]

    def fails(cand):
        r = ck.run_impl("impl_res.py", [{"cases": [{"ops": cand, "backend": be}]}])[0]
        if "error" in r or "crash" in r["results"][0]:
            return None
        rr = r["results"][0]
        return rr if any(b[0] == sig for b in oracle(rr)) else None
    best = result
    n = 0
    changed = True
    while changed and n < 60:
        changed = False
        for i in range(len(ops) - 1, -1, -1):
            if ops[i]["op"] in ("New",) and any(o.get("c", -1) >= 0 for o in ops[i + 1:]):
                continue
            cand = ops[:i] + ops[i + 1:]
            n += 1
            try:
                rr = fails(cand)
            except Exception:
                rr = None
            if rr:
                ops, best, changed = cand, rr, True
                break
    return best


def run_property(ck: Check, mask: str, oracle, fixed=None, extra_cov=None):
    ck.trusted = RES_TRUST
    ck.prove(extra_targets=["Corr/Check_res.v", "Ctx/ResExamples.v"])
    results = collect(ck, ck.n(1200, 30000), 18, fixed)
    terms = [case_term(r) for r in results]
    bad = ck.coq_eval("res", HEADER, terms, "res_case", f"check_res {mask}", shard=150)
    n_fail = 0
    sigs = {}
    for idx, r in enumerate(results):
        for sig, what, step in oracle(r):
            n_fail += 1
            if sig not in sigs:
                sigs[sig] = (r, what, step)
    for sig, (r, what, step) in sigs.items():
        small = r
        if n_fail and len(r["steps"]) > 6 and not any(
                k["property"] == ck.pid and k.get("status") == "open" and __import__("re").fullmatch(k["signature"], sig)
                for k in ck.known.get("findings", [])):
            try:
                small = shrink(ck, r, oracle, sig)
            except Exception as e:  # noqa
                ck.notes.append(f"shrinking failed: {e}")
        w = next((b[1] for b in oracle(small) if b[0] == sig), what)
        ck.fail_input(sig, w, {"backend": small["backend"], "ops": [s["op"] for s in small["steps"]],
                               "outs": [s["out"] for s in small["steps"]]})
    for i in bad[:10]:
        if not oracle(results[i]):
            ck.broke("correspondence", {"case_seed": results[i].get("seed"), "backend": results[i]["backend"],
                                        "ops": [s["op"] for s in results[i]["steps"]],
                                        "outs": [s["out"] for s in results[i]["steps"]],
                                        "mask": mask})
    distinct = {json.dumps([s["op"] for s in r["steps"]], sort_keys=True): nontrivial(r) for r in results}
    ck.coverage.update({
        "evaluations": len(results),
        "distinct_nontrivial": sum(1 for v in distinct.values() if v),
        "rule": "seeded histories of context operations (create root/child, enter, begin/finish exit, add_resource "
                "[single/multi type, valid/invalid name, None value, bad type, callable/non-callable teardown "
                "callback], add_resource_factory [sync, async, suspending async], get_resource_nowait, get_resource "
                "(possibly suspended in its factory while other operations run), get_resources, "
                "add_teardown_callback) over forests of up to ~8 contexts, executed on real Context objects on "
                "asyncio and trio; after EVERY operation the outcome and a probe of every context (closed, "
                "get_resources for every type, events received by a listener, factory call counts) are compared "
                "inside Coq with the model under the property's mask. distinct = by op list; non-trivial = has a "
                "child context, a successful add and a successful lookup",
        "samples": [{"backend": r["backend"], "ops": [s["op"] for s in r["steps"]][:12],
                     "outs": [s["out"] for s in r["steps"]][:12]} for r in results[len(fixed or []) * 2:][:2]],
        "traces_validated_against_impl": len(results) - len(bad),
        "mismatches": len(bad),
        "operations_executed": sum(len(r["steps"]) for r in results),
        "input_distribution": distribution(results),
        "oracle_failures": n_fail,
    })
    if extra_cov:
        ck.coverage.update(extra_cov)
    if ck.tier == "thorough":
        ck.coqchk()
    return results, bad


def replay_generic(ck: Check, obj, oracle, mask) -> int:
    rp = obj.get("replay") or obj["no_longer_checks"][0]["detail"]
    r = ck.run_impl("impl_res.py", [{"cases": [{"ops": rp["ops"], "backend": rp["backend"]}]}])[0]
    rr = r["results"][0]
    if "crash" in rr:
        print(rr["crash"])
        return 1
    for s in rr["steps"]:
        print(s["op"], "->", s["out"])
    bad = oracle(rr)
    for b in bad:
        print("ORACLE:", b[0], "-", b[1])
    mism = ck.coq_eval("replay", HEADER, [case_term(rr)], "res_case", f"check_res {mask}")
    print("model/implementation correspondence:", "DISAGREE" if mism else "agree")
    return 1 if bad or mism else 0


# histories that always run first: regression corpus of minimised failures and the witnesses of
# the findings repaired in /repo (F2, F3, F4, F5, F14)
def _h(*ops):
    return [dict(o) for o in ops]


_N, _E = {"op": "New", "p": None}, {"op": "Enter", "c": 0}
FIXED_HISTORIES = [
    # two sibling contexts that inherited one suspending factory each generate their own, also when the two
    # generations overlap (the one begun later ends first)
    _h(_N, _E, {"op": "AddFactory", "c": 0, "f": 0, "kind": "FAsyncSusp", "name": "default", "types": [1], "desc": None},
       {"op": "New", "p": 0}, {"op": "Enter", "c": 1}, {"op": "New", "p": 0}, {"op": "Enter", "c": 2},
       {"op": "GetBegin", "c": 1, "tok": 0, "t": 1, "name": "default", "optional": False},
       {"op": "GetBegin", "c": 2, "tok": 1, "t": 1, "name": "default", "optional": False},
       {"op": "GetEnd", "c": 2, "tok": 1}, {"op": "GetNowait", "c": 2, "t": 1, "name": "default", "optional": True},
       {"op": "GetEnd", "c": 1, "tok": 0}, {"op": "GetNowait", "c": 1, "t": 1, "name": "default", "optional": True},
       {"op": "GetResources", "c": 2, "t": 1}),
    # F2: async lookup then child must not inherit the generated object
    _h(_N, _E, {"op": "AddFactory", "c": 0, "f": 0, "kind": "FAsyncImm", "name": "default", "types": [0], "desc": None},
       {"op": "GetBegin", "c": 0, "tok": 0, "t": 0, "name": "default", "optional": False},
       {"op": "New", "p": 0}, {"op": "GetResources", "c": 1, "t": 0}),
    # F3: bad teardown callback leaves nothing registered
    _h(_N, _E, {"op": "AddResource", "c": 0, "v": 1, "vty": 0, "name": "x", "types": [], "desc": None, "cb": "bad"},
       {"op": "GetNowait", "c": 0, "t": 0, "name": "x", "optional": True}),
    # F4: multi-type factory generation must not replace a taken pair
    _h(_N, _E, {"op": "AddResource", "c": 0, "v": 1, "vty": 1, "name": "default", "types": [], "desc": None, "cb": None},
       {"op": "AddFactory", "c": 0, "f": 0, "kind": "FSync", "name": "default", "types": [0, 1], "desc": None},
       {"op": "GetNowait", "c": 0, "t": 1, "name": "default", "optional": False},
       {"op": "GetNowait", "c": 0, "t": 0, "name": "default", "optional": False},
       {"op": "GetNowait", "c": 0, "t": 1, "name": "default", "optional": False}),
    # F5: two racing async lookups, one generation
    _h(_N, _E, {"op": "AddFactory", "c": 0, "f": 0, "kind": "FAsyncSusp", "name": "default", "types": [0, 1], "desc": 2},
       {"op": "GetBegin", "c": 0, "tok": 0, "t": 0, "name": "default", "optional": False},
       {"op": "GetBegin", "c": 0, "tok": 1, "t": 1, "name": "default", "optional": False},
       {"op": "GetBegin", "c": 0, "tok": 2, "t": 0, "name": "default", "optional": True},
       {"op": "GetEnd", "c": 0, "tok": 0}, {"op": "GetEnd", "c": 0, "tok": 1}, {"op": "GetEnd", "c": 0, "tok": 2},
       {"op": "GetNowait", "c": 0, "t": 1, "name": "default", "optional": False}),
    # every pair of the factory is taken while it is running: nothing is registered, nothing announced
    _h(_N, _E, {"op": "AddFactory", "c": 0, "f": 0, "kind": "FAsyncSusp", "name": "y_2", "types": [2, 3], "desc": 1},
       {"op": "GetBegin", "c": 0, "tok": 0, "t": 3, "name": "y_2", "optional": False},
       {"op": "AddResource", "c": 0, "v": 1, "vty": 2, "name": "y_2", "types": [2, 3], "desc": None, "cb": None},
       {"op": "GetEnd", "c": 0, "tok": 0},
       {"op": "GetNowait", "c": 0, "t": 2, "name": "y_2", "optional": False}),
    # F14: a resource added under the requested pair while its factory is running
    _h(_N, _E, {"op": "AddFactory", "c": 0, "f": 0, "kind": "FAsyncSusp", "name": "default", "types": [0, 1], "desc": None},
       {"op": "GetBegin", "c": 0, "tok": 0, "t": 0, "name": "default", "optional": False},
       {"op": "AddResource", "c": 0, "v": 1, "vty": 0, "name": "default", "types": [], "desc": None, "cb": None},
       {"op": "GetEnd", "c": 0, "tok": 0},
       {"op": "GetNowait", "c": 0, "t": 0, "name": "default", "optional": False},
       {"op": "GetNowait", "c": 0, "t": 1, "name": "default", "optional": False}),
]
