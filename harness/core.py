"""Shared machinery of every check: build the Coq development against the current
source of $VERIF_REPO, run the implementation, evaluate the model inside Coq on the same
cases, decide, write evidence.  See DESIGN.md section 2."""
from __future__ import annotations

import argparse
import fcntl
import hashlib
import importlib
import json
import os
import random
import re
import subprocess
import sys
import time
from concurrent.futures import ThreadPoolExecutor
from pathlib import Path

VERIF = Path(__file__).resolve().parent.parent
COQ = VERIF / "coq"
TH = COQ / "theories"
BUILD = VERIF / "build"
REPO = Path(os.environ.get("VERIF_REPO", "/repo"))
PY = "/venv/bin/python"
HOOK_GUARD = "ASPHALT_VERIF_HOOKS"
NCPU = min(16, os.cpu_count() or 4)

FORBIDDEN = re.compile(
    r"\b(Admitted|admit|Axiom|Axioms|Parameter|Parameters|Conjecture|Conjectures)\b|Admit Obligations"
    r"|Unset\s+Guard\s+Checking|bypass_check|type-in-type|impredicative-set|Unset\s+Positivity"
    r"|Unset\s+Universe\s+Checking"
)


# --------------------------------------------------------------------------- Coq terms
def cstr(s: str) -> str:
    return '"' + s.replace('"', '""') + '"'


def cnat(n: int) -> str:
    return f"{int(n)}"


def cZ(n: int) -> str:
    return f"({int(n)})%Z"


def cbool(b) -> str:
    return "true" if b else "false"


def clist(items) -> str:
    items = list(items)
    return "[" + "; ".join(items) + "]" if items else "[]"


def copt(x, f=lambda v: v) -> str:
    return "None" if x is None else f"(Some {f(x)})"


def cpair(a: str, b: str) -> str:
    return f"({a}, {b})"


# --------------------------------------------------------------------------- helpers
def sh(cmd, *, cwd=None, timeout=600, env=None, input=None):
    try:
        p = subprocess.run(cmd, cwd=cwd, timeout=timeout, env=env, input=input,
                           stdout=subprocess.PIPE, stderr=subprocess.STDOUT, text=True)
        return p.returncode, p.stdout
    except subprocess.TimeoutExpired as e:
        out = e.stdout or ""
        if isinstance(out, bytes):
            out = out.decode(errors="replace")
        return 124, out + f"\n[timeout after {timeout}s]"


def impl_env() -> dict:
    env = dict(os.environ)
    env["PYTHONPATH"] = f"{REPO}/src:{VERIF}"
    env["PYTHONHASHSEED"] = "0"
    env["PYTHONDONTWRITEBYTECODE"] = "1"
    env[HOOK_GUARD] = "1"
    env["VERIF_REPO"] = str(REPO)
    env.pop("ASPHALT_SERVICE", None)
    return env


def v_files() -> list[Path]:
    return sorted(TH.rglob("*.v"))


def strip_comments(src: str) -> str:
    out, depth, i = [], 0, 0
    while i < len(src):
        if src.startswith("(*", i):
            depth += 1
            i += 2
        elif src.startswith("*)", i) and depth:
            depth -= 1
            i += 2
        else:
            if not depth:
                out.append(src[i])
            i += 1
    return "".join(out)


def scan_forbidden() -> list[str]:
    """No Admitted/admit/Axiom/Parameter/...; Variable/Hypothesis/Context only in a Section."""
    bad = []
    for f in v_files():
        src = strip_comments(f.read_text())
        src_nostr = re.sub(r'"(?:[^"]|"")*"', '""', src)
        for m in FORBIDDEN.finditer(src_nostr):
            bad.append(f"{f.relative_to(COQ)}: {m.group(0)}")
        depth = 0
        for sent in re.split(r"\.\s", src_nostr):
            s = sent.strip()
            if re.match(r"^Section\b", s):
                depth += 1
            elif re.match(r"^End\b", s) and depth:
                depth -= 1
            elif depth == 0 and re.match(r"^(Variable|Variables|Hypothesis|Hypotheses|Context)\b", s):
                bad.append(f"{f.relative_to(COQ)}: section-less {s.split()[0]}")
    return bad


def requires_of(f: Path) -> list[Path]:
    """Files of this development required (transitively computed by caller)."""
    src = strip_comments(f.read_text())
    deps = []
    for m in re.finditer(r"From\s+Asphalt\s+Require\s+(?:Import\s+|Export\s+)?([\w.\s]+?)\.\s", src):
        for name in m.group(1).split():
            p = TH / (name.replace(".", "/") + ".v")
            if p.exists():
                deps.append(p)
    for m in re.finditer(r"(?<!Asphalt\s)Require\s+(?:Import\s+|Export\s+)?([\w.\s]+?)\.\s", src):
        for name in m.group(1).split():
            if name.startswith("Asphalt."):
                p = TH / (name[len("Asphalt."):].replace(".", "/") + ".v")
                if p.exists():
                    deps.append(p)
    return deps


def closure(f: Path) -> list[Path]:
    seen, todo = [], [f]
    while todo:
        x = todo.pop()
        if x in seen:
            continue
        seen.append(x)
        todo.extend(requires_of(x))
    return seen


def count_qed(f: Path) -> int:
    return len(re.findall(r"\b(Qed|Defined)\.", strip_comments(f.read_text())))


CASE_PRELUDE = ("From Coq Require Import String.\nFrom Coq Require Import List ZArith Bool.\n"
                "Import ListNotations.\nOpen Scope string_scope.\nOpen Scope list_scope.\n")


class BuildLock:
    def __enter__(self):
        BUILD.mkdir(exist_ok=True)
        self.fh = open(BUILD / ".lock", "w")
        fcntl.flock(self.fh, fcntl.LOCK_EX)
        return self

    def __exit__(self, *a):
        fcntl.flock(self.fh, fcntl.LOCK_UN)
        self.fh.close()


def regenerate() -> dict:
    """Run every translator on the current source; returns {fragment: {"ok":bool,"reason":str}}."""
    from translate import py2coq
    return py2coq.regenerate_all(REPO, TH / "Gen")


def ensure_makefile():
    files = [str(p.relative_to(COQ)) for p in v_files()]
    sig = hashlib.sha1("\n".join(files).encode()).hexdigest()
    stamp = COQ / ".filelist.sha1"
    if (COQ / "Makefile.coq").exists() and stamp.exists() and stamp.read_text() == sig:
        return
    rc, out = sh(["coq_makefile", "-f", "_CoqProject", "-o", "Makefile.coq"] + files, cwd=COQ)
    if rc != 0:
        raise RuntimeError("coq_makefile failed: " + out)
    stamp.write_text(sig)


def make(targets: list[str], timeout=3000):
    ensure_makefile()
    cmd = ["timeout", str(timeout), "make", "-k", "-f", "Makefile.coq", f"-j{NCPU}"] + targets
    rc, out = sh(cmd, cwd=COQ, timeout=timeout + 30)
    return rc, out, " ".join(cmd)


def parse_assumptions(out: str) -> list[dict]:
    """Split coqc output of a Props file into one record per Print Assumptions."""
    res = []
    blocks = re.split(r"(?m)^(?=Closed under the global context|Axioms:|Section Variables:)", out)
    for b in blocks:
        b = b.strip()
        if b.startswith("Closed under the global context"):
            res.append({"closed": True, "axioms": []})
        elif b.startswith("Axioms:") or b.startswith("Section Variables:"):
            names = re.findall(r"(?m)^([A-Za-z_][\w.']*)\s*:", b.split("\n", 1)[1] if "\n" in b else "")
            res.append({"closed": False, "axioms": names, "text": b[:2000]})
    return res


# --------------------------------------------------------------------------- Check
class Check:
    def __init__(self, pid: str, tier: str, seed: int):
        self.pid, self.tier, self.seed = pid, tier, seed
        self.t0 = time.time()
        self.broken: list[dict] = []        # obligations / correspondence that no longer check
        self.failures: list[dict] = []      # concrete failing inputs (oracle on the implementation)
        self.notes: list[str] = []
        self.coverage: dict = {}
        self.assumptions_text: list[str] = []
        self.trusted: list[str] = []
        self.checker_cmds: list[str] = []
        self.obligations = 0
        self.discharged = 0
        self.tie: dict = {}
        kf = VERIF / "known_findings.json"
        self.known = json.loads(kf.read_text()) if kf.exists() else {"findings": [], "fixed": []}
        self.known_seen: dict[str, int] = {}
        (BUILD / "replay").mkdir(parents=True, exist_ok=True)

    # ---- randomness
    def rng(self, *parts) -> random.Random:
        return random.Random(f"{self.seed}:{self.pid}:{self.tier}:" + ":".join(map(str, parts)))

    def n(self, quick: int, thorough: int) -> int:
        return thorough if self.tier == "thorough" else quick

    # ---- proof side
    def prove(self, props_file: str = None, extra_targets: list[str] = ()):  # e.g. "Props/C17.v"
        """Regenerate Gen/*.v from the source, build the closure of the property's theorem file
        with a full .vo build, re-run coqc on the theorem file to capture Print Assumptions."""
        props_file = props_file or f"Props/{self.pid}.v"
        pf = TH / props_file
        with BuildLock():
            self.tie["translation"] = regenerate()
            for frag, st_ in self.tie["translation"].items():
                if not st_["ok"]:
                    self.notes.append(f"translator rejected the current source for {frag} ({st_.get('reason')}): the "
                                      f"pinned text is used for it and the correspondence decides")
            bad = scan_forbidden()
            if bad:
                self.broken.append({"kind": "forbidden-construct", "detail": bad})
            files = closure(pf)
            for x in extra_targets:
                files += [p for p in closure(TH / x) if p not in files]
            self.obligations = sum(count_qed(f) for f in files)
            targets = [str(pf.relative_to(COQ))[:-2] + ".vo"] + [
                "theories/" + x[:-2] + ".vo" for x in extra_targets]
            rc, out, cmd = make(targets)
            self.checker_cmds.append(f"(cd coq && {cmd})")
            ok_files = []
            for f in files:
                vo = f.with_suffix(".vo")
                if vo.exists() and vo.stat().st_mtime >= max(x.stat().st_mtime for x in closure(f)):
                    ok_files.append(f)
            self.discharged = sum(count_qed(f) for f in ok_files)
            if rc != 0:
                m = re.search(r'File "([^"]+)", line (\d+)[^\n]*\n(?:.*\n){0,12}', out)
                where = m.group(0)[:1500] if m else out[-1500:]
                failed = [str(f.relative_to(TH)) for f in files if f not in ok_files]
                self.broken.append({"kind": "proof-obligation", "files_not_compiled": failed,
                                    "detail": where, "cmd": cmd})
                return False
            cmd2 = ["timeout", "300", "coqc", "-Q", "theories", "Asphalt",
                    "-w", "-notation-overridden", str(pf.relative_to(COQ))]
            rc, out = sh(cmd2, cwd=COQ, timeout=330)
            self.checker_cmds.append("(cd coq && " + " ".join(cmd2) + ")")
            if rc != 0:
                self.broken.append({"kind": "proof-obligation", "files_not_compiled": [props_file],
                                    "detail": out[-1500:]})
                return False
            ass = parse_assumptions(out)
            n_thm = len(re.findall(r"Print Assumptions", strip_comments(pf.read_text())))
            if len(ass) != n_thm or n_thm == 0:
                self.broken.append({"kind": "assumptions-unparsed", "detail": out[-800:]})
            axioms = sorted({a for r in ass for a in r["axioms"]})
            self.assumptions_text = (["all %d property theorems: Closed under the global context" % n_thm]
                                     if not axioms else ["axioms used: " + ", ".join(axioms)])
            self.theorems = re.findall(r"(?m)^\s*Theorem\s+([\w']+)", strip_comments(pf.read_text()))
            allowed = set(self.known.get("allowed_axioms", []))
            for a in axioms:
                if a not in allowed:
                    self.broken.append({"kind": "unexpected-axiom", "detail": a})
            return True

    def coqchk(self, props_file: str = None):
        props_file = props_file or f"Props/{self.pid}.v"
        mod = "Asphalt." + props_file[:-2].replace("/", ".")
        cmd = ["timeout", "900", "coqchk", "-silent", "-o", "-Q", "theories", "Asphalt", mod]
        rc, out = sh(cmd, cwd=COQ, timeout=930)
        self.checker_cmds.append("(cd coq && " + " ".join(cmd) + ")")
        self.coverage["coqchk"] = {"rc": rc, "tail": out[-1200:]}
        if rc != 0:
            self.broken.append({"kind": "coqchk", "detail": out[-1500:]})

    # ---- implementation side
    def run_impl(self, script: str, payloads: list, timeout=300) -> list:
        """Run harness/impl/<script> once per payload (in parallel); each reads JSON on stdin and
        writes JSON on stdout."""
        env = impl_env()

        def one(p):
            rc, out = sh([PY, str(VERIF / "harness" / "impl" / script)], env=env, timeout=timeout,
                         input=json.dumps(p), cwd=str(VERIF))
            # the runner prints one JSON document on the last line starting with @@
            m = re.search(r"(?m)^@@(.*)$", out)
            if rc != 0 or not m:
                return {"error": f"runner rc={rc}", "log": out[-3000:]}
            return json.loads(m.group(1))

        with ThreadPoolExecutor(NCPU) as ex:
            return list(ex.map(one, payloads))

    # ---- model side: evaluate cases inside Coq
    def coq_eval(self, name: str, header: str, case_terms: list[str], case_type: str,
                 checker: str, shard=400, timeout=600) -> list[int]:
        """Writes shards `Definition cases : list <case_type> := [...]` and evaluates
        `mismatches <checker> cases` with vm_compute; returns global indices of mismatching cases.
        An evaluation failure is reported as broken correspondence."""
        d = BUILD / "cases" / self.pid
        d.mkdir(parents=True, exist_ok=True)
        for old in d.glob(f"{name}_*"):
            old.unlink()
        shards = [case_terms[i:i + shard] for i in range(0, len(case_terms), shard)]
        files = []
        for si, terms in enumerate(shards):
            f = d / f"{name}_{si}.v"
            body = ";\n  ".join(terms)
            f.write_text(f"{header}\n{CASE_PRELUDE}\nDefinition cases : list ({case_type}) := [\n  {body}\n].\n"
                         f"Definition bad := Eval vm_compute in (mismatches ({checker}) cases).\n"
                         f"Print bad.\n")
            files.append(f)

        def one(f):
            # -noglob, and the compiled shard is deleted at once: only the printed result is needed, and the .glob /
            # .vo files of a thorough run would otherwise take more than a gigabyte per property
            cmd = ["timeout", str(timeout), "coqc", "-noglob", "-Q", str(TH), "Asphalt", "-w", "-notation-overridden", f.name]
            res = sh(cmd, cwd=str(d), timeout=timeout + 30)
            for ext in (".vo", ".vok", ".vos", ".glob"):
                try:
                    f.with_suffix(ext).unlink()
                except OSError:
                    pass
            return res

        bad = []
        with ThreadPoolExecutor(NCPU) as ex:
            for si, (rc, out) in enumerate(ex.map(one, files)):
                m = re.search(r"bad\s*=\s*(\[[^\]]*\])", out, re.S)
                if rc != 0 or not m:
                    self.broken.append({"kind": "correspondence-eval", "shard": str(files[si]),
                                        "detail": out[-1500:]})
                    continue
                idxs = [int(x) for x in re.findall(r"\d+", m.group(1))]
                bad.extend(si * shard + i for i in idxs)
        self.checker_cmds.append(f"coqc -Q coq/theories Asphalt build/cases/{self.pid}/{name}_*.v  (vm_compute, {len(files)} shard(s))")
        return bad

    # ---- verdicts
    def run_fixed(self, scenarios: dict) -> int:
        """fixed scenarios of harness/impl/impl_fixed.py ({name: signature}) on both backends: direct restatements
        of one clause on the implementation, for situations generated histories cannot reach"""
        n = 0
        for be in ("asyncio", "trio"):
            r = self.run_impl("impl_fixed.py", [{"scenarios": list(scenarios), "backend": be}])[0]
            if "results" not in r:
                self.broke("impl-runner", r)
                continue
            for res in r["results"]:
                n += 1
                if not res["ok"]:
                    self.fail_input(scenarios[res["name"]], f"{res['name']} ({be}): {res['detail']}",
                                    {"fixed_scenario": res["name"], "backend": be})
        self.coverage["fixed_scenarios"] = self.coverage.get("fixed_scenarios", 0) + n
        return n

    def fail_input(self, signature: str, what: str, replay: dict):
        """A concrete input/history/schedule on which the implementation violates the property."""
        self.failures.append({"signature": signature, "what": what, "replay": replay})

    def runner_crash(self, replay: dict, crash_text: str):
        """The implementation runner died with an exception on this input.  When the exception passed through
        asphalt's own code it is a concrete failing input (the implementation raises where the model, and the
        property, say it does not); otherwise only the correspondence is broken."""
        if "/asphalt/core/" in crash_text:
            last = crash_text.strip().splitlines()[-1]
            self.fail_input(f"{self.pid}:unexpected-exception",
                            f"the implementation raised on this input: {last[:200]}", dict(replay, crash=crash_text[-1500:]))
        else:
            self.broke("impl-runner-crash", dict(replay, crash=crash_text))

    def broke(self, kind: str, detail):
        self.broken.append({"kind": kind, "detail": detail})

    def finish(self, level="proof") -> int:
        unknown = []
        for f in self.failures:
            kf = next((k for k in self.known.get("findings", [])
                       if k["property"] == self.pid and k.get("status") == "open"
                       and re.fullmatch(k["signature"], f["signature"])), None)
            if kf:
                self.known_seen.setdefault(kf["id"], 0)
                self.known_seen[kf["id"]] += 1
            else:
                unknown.append(f)
        lines = []
        for k in self.known.get("findings", []):
            if k["property"] == self.pid and k.get("status") == "open":
                # printed for each listed finding (exercised by this run or not)
                seen = self.known_seen.get(k["id"], 0)
                lines.append(f"KNOWN-FINDING: property={self.pid} {k['id']}: {k['what']} (reproduced {seen}x in this run)")
        rc = 0
        shown = set()
        n = 0
        for f in unknown:
            if f["signature"] in shown:
                continue
            shown.add(f["signature"])
            path = BUILD / "replay" / f"{self.pid}_{n}.json"
            n += 1
            path.write_text(json.dumps({"property": self.pid, "seed": self.seed, "tier": self.tier,
                                        "signature": f["signature"], "what": f["what"],
                                        "replay": f["replay"], "broken": self.broken}, indent=1, default=str))
            if n <= 5:
                lines.append(f"VIOLATION property={self.pid} replay={path}")
            rc = 1
        if self.broken and not unknown:
            path = BUILD / "replay" / f"{self.pid}_broken.json"
            path.write_text(json.dumps({"property": self.pid, "seed": self.seed, "tier": self.tier,
                                        "no_longer_checks": self.broken,
                                        "note": "no concrete failing input was found by the search; the "
                                                "property is no longer shown to hold"}, indent=1, default=str))
            lines.append(f"VIOLATION property={self.pid} replay={path} no-failing-input-found")
            rc = 1
        cov = dict(self.coverage)
        cov.setdefault("evaluations", 0)
        cov.setdefault("distinct_nontrivial", 0)
        cov.setdefault("rule", "")
        cov.setdefault("samples", [])
        cov["obligations"] = self.obligations
        cov["discharged"] = self.discharged
        cov["checker_cmd"] = " ; ".join(self.checker_cmds) or "none"
        cov["trusted_base"] = self.trusted + self.assumptions_text
        cov["tie"] = self.tie
        cov["theorems"] = getattr(self, "theorems", [])
        cov["known_findings_seen"] = self.known_seen
        cov["broken"] = self.broken
        cov["notes"] = self.notes
        ev = {"property_id": self.pid, "tier": self.tier, "seed": self.seed, "level": level,
              "coverage": cov, "assumptions": self.trusted, "wall_s": round(time.time() - self.t0, 2),
              "violations": len(unknown) + (1 if self.broken and not unknown else 0)}
        (VERIF / "evidence").mkdir(exist_ok=True)
        (VERIF / "evidence" / f"{self.pid}.json").write_text(json.dumps(ev, indent=1, default=str) + "\n")
        for ln in lines:
            print(ln)
        print(f"[{self.pid}] tier={self.tier} seed={self.seed} obligations={self.obligations} "
              f"discharged={self.discharged} evaluations={cov['evaluations']} "
              f"broken={len(self.broken)} failing_inputs={len(self.failures)} "
              f"unknown={len(unknown)} wall={ev['wall_s']}s -> exit {rc}")
        return rc


COMMON_TRUST = [
    "Coq 8.16.1 kernel (coqc; vm_compute used for evaluating the model on cases and finite sweeps; no native_compute)",
    "harness: case generators, implementation runners and the printer of Python observations as Gallina terms (harness/)",
    "CPython 3.12.1, anyio, trio, PyYAML, click as installed in /venv",
]


def setup() -> int:
    with BuildLock():
        status = regenerate()
        print("translators:", json.dumps(status))
        bad = scan_forbidden()
        if bad:
            print("forbidden constructs:", bad)
            return 1
        rc, out, cmd = make([])
        print(out[-3000:])
        return rc


def main():
    ap = argparse.ArgumentParser()
    ap.add_argument("pid", nargs="?")
    ap.add_argument("--tier", default=os.environ.get("VERIF_TIER", "quick"))
    ap.add_argument("--replay")
    ap.add_argument("--setup", action="store_true")
    a = ap.parse_args()
    if a.setup:
        sys.exit(setup())
    seed = int(os.environ.get("VERIF_SEED", "0") or 0)
    tier = a.tier if a.tier in ("quick", "thorough") else "quick"
    mod = importlib.import_module(f"harness.props.{a.pid.lower()}")
    ck = Check(a.pid, tier, seed)
    if a.replay:
        obj = json.loads(Path(a.replay).read_text())
        rp = obj.get("replay")
        if isinstance(rp, dict) and "fixed_scenario" in rp:
            r = ck.run_impl("impl_fixed.py", [{"scenarios": [rp["fixed_scenario"]], "backend": rp["backend"]}])[0]
            res = (r.get("results") or [{"ok": False, "detail": str(r)[:400]}])[0]
            print(rp["fixed_scenario"], "on", rp["backend"], "->", "holds" if res["ok"] else "FAILS", "-", res["detail"])
            sys.exit(0 if res["ok"] else 1)
        sys.exit(mod.replay(ck, obj))
    try:
        mod.run(ck)
    except Exception as e:  # a crashing check must not pass silently
        import traceback
        ck.broke("check-crashed", traceback.format_exc()[-3000:])
    sys.exit(ck.finish())
